//go:build verif

// Generated into the scratch copy only (never into /repo): accessors the harness needs for unexported
// state. See /verif/DESIGN.md §2.1 item 6.
package mqtt

import (
	"sync/atomic"

	"github.com/mochi-mqtt/server/v2/packets"
)

// VerifWillDelayed exposes the delayed-will table.
func (s *Server) VerifWillDelayed() *packets.Packets { return s.loop.willDelayed }

// VerifSetMaxPacketID lowers the packet id space (wrap-around tests).
func (s *Server) VerifSetMaxPacketID(n uint32) { s.Options.Capabilities.maximumPacketID = n }

// VerifHooks exposes the hook chain.
func (s *Server) VerifHooks() *Hooks { return s.hooks }

// VerifInline returns the inline client.
func (s *Server) VerifInline() *Client { return s.inlineClient }

// VerifOutboundLen returns the number of packets waiting in the client's outbound queue.
func (cl *Client) VerifOutboundLen() int { return len(cl.State.outbound) }

// VerifOutbufLen returns the number of bytes sitting in the client's write buffer.
func (cl *Client) VerifOutbufLen() int {
	if cl.Net.outbuf == nil {
		return 0
	}
	return cl.Net.outbuf.Len()
}

// VerifQuotas returns (receiveQuota, sendQuota, maximumReceiveQuota, maximumSendQuota).
func (i *Inflight) VerifQuotas() (int32, int32, int32, int32) {
	return atomic.LoadInt32(&i.receiveQuota), atomic.LoadInt32(&i.sendQuota), atomic.LoadInt32(&i.maximumReceiveQuota), atomic.LoadInt32(&i.maximumSendQuota)
}

// VerifCountSubscriptions walks the topic index and counts client, shared and inline subscriptions.
func (x *TopicsIndex) VerifCountSubscriptions() (client, shared, inline int) {
	var walk func(n *particle)
	walk = func(n *particle) {
		if n.subscriptions != nil {
			client += n.subscriptions.Len()
		}
		if n.shared != nil {
			shared += n.shared.Len()
		}
		if n.inlineSubscriptions != nil {
			inline += n.inlineSubscriptions.Len()
		}
		for _, c := range n.particles.getAll() {
			walk(c)
		}
	}
	walk(x.root)
	return
}

// VerifNewTopicsIndexClient makes NewClient available with an explicit connection for unit-level engines.
func (s *Server) VerifOps() *ops { return &ops{options: s.Options, info: s.Info, hooks: s.hooks, log: s.Log} }
