//go:build verif

// Generated into the scratch copy only (never into /repo).
package listeners

import (
	"log/slog"
	"net"
	"net/http"
)

// SimTCP runs the real TCP listener code (Serve accept loop, Close) over a caller-supplied net.Listener.
type SimTCP struct{ *TCP }

// NewSimTCP returns a TCP listener whose socket is ln.
func NewSimTCP(id string, ln net.Listener) *SimTCP {
	t := NewTCP(Config{ID: id, Address: "sim"})
	t.listen = ln
	return &SimTCP{t}
}

// Init replaces TCP.Init (which would open a real socket).
func (l *SimTCP) Init(log *slog.Logger) error {
	l.log = log
	return nil
}

// VerifHandle runs the real websocket upgrade handler (and through it the real wsConn) for one request,
// without an http.Server: the caller supplies a hijackable ResponseWriter over a simulated connection.
func (l *Websocket) VerifHandle(establish EstablishFn, log *slog.Logger, w http.ResponseWriter, r *http.Request) {
	l.establish = establish
	l.log = log
	l.handler(w, r)
}
