//go:build verif

// Generated into the scratch copy only (never into /repo).
package listeners

import (
	"log/slog"
	"net"
)

// SimTCP runs the real TCP listener code (Serve accept loop, Close) over a caller-supplied net.Listener.
type SimTCP struct{ *TCP }

// NewSimTCP returns a TCP listener whose socket is ln.
func NewSimTCP(id string, ln net.Listener) *SimTCP {
	t := NewTCP(Config{ID: id, Address: "sim"})
	t.listen = ln
	return &SimTCP{t}
}

// Init replaces TCP.Init (which would open a real socket).
func (l *SimTCP) Init(log *slog.Logger) error {
	l.log = log
	return nil
}

// SimWebsocket exposes the websocket upgrade handler so that it can be served over a simulated listener.
func (l *Websocket) VerifInitNoListen(log *slog.Logger) { l.log = log }
