package verifsim

// Placeholder: vinstr overwrites this file in the scratch copy with the real site table.
