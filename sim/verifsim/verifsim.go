// Package verifsim is the simulated runtime that instrumented copies of mochi-mqtt/server call into.
//
// It is copied by /verif/bin/vcheck into a scratch copy of /repo (never into /repo itself) as package
// github.com/mochi-mqtt/server/v2/verifsim. The source instrumenter (tools/vinstr) rewrites the broker so
// that every lock operation, atomic access, channel hand-off, goroutine start, map iteration, multi-way
// select, clock read and generated id goes through this package. With no scheduler active every function
// here is a thin pass-through to the real primitive (free-running mode, used for -race runs and for the
// repository's own tests on the instrumented tree). With a scheduler active (inside a testing/synctest
// bubble) goroutines become named tasks, exactly one of which runs between two scheduling decisions, and
// every decision is made by the harness from its seeded tape.
package verifsim

import (
	"bytes"
	"fmt"
	"reflect"
	"runtime"
	"runtime/debug"
	"sort"
	"strconv"
	"sync"
	"sync/atomic"
	"testing/synctest"
	"time"
	"unsafe"
)

const (
	stRunning = iota
	stParked
	stDone
)

// Task is a goroutine known to the scheduler.
type Task struct {
	Name    string
	Site    int    // site at which the task is parked
	Why     string // "", "lock", "rlock", "once", "wg"
	LockPtr unsafe.Pointer
	state   int
	guard   func() bool
	wake    chan struct{}
	nchild  map[int]int
	Prio    int // free for use by the harness strategy (PCT)
	Steps   int
}

func (t *Task) Done() bool    { return t.state == stDone }
func (t *Task) Parked() bool  { return t.state == stParked }
func (t *Task) Running() bool { return t.state == stRunning }

type lockState struct {
	writer   *Task
	readers  map[*Task]int
	pendingW int
}

type onceState struct {
	runner *Task
	done   bool
}

// Event is a notable detection made by the runtime itself.
type Event struct {
	Kind  string // "reentrant-rlock", "panic", "unlock-unheld"
	Task  string
	Site  int
	Text  string
	Stack string
}

// Sched is one simulated execution's scheduler state.
type Sched struct {
	mu     sync.Mutex
	byGoid map[int64]*Task
	tasks  []*Task
	locks  map[unsafe.Pointer]*lockState
	onces  map[unsafe.Pointer]*onceState
	wgs    map[unsafe.Pointer]int
	pools  map[unsafe.Pointer][]any
	// PoolPoints makes sync.Pool Get/Put schedule points (set by the buffer pool profile only).
	PoolPoints bool

	// Draw is called (from the single running task, or from the harness) for every nondeterministic
	// choice the runtime itself has to make: map permutations and select poll order.
	Draw func(label string, n int) int
	// Armed reports whether a (non-mandatory) site is a schedule point in this run.
	Armed []bool
	// ArmAll arms every site regardless of Armed.
	ArmAll bool

	Events   []Event
	Steps    int
	SiteHits []uint32 // per site: number of times reached
	SitePark []uint32 // per site: number of times a task parked there
	Trace    func(task string, site int)

	Tickers    []*SimTicker
	WallOffset time.Duration // added to Now() (forward clock steps)
	idCounter  int64
	abandoned  bool
	free       bool // released into free-running mode (teardown)
}

var cur atomic.Pointer[Sched]

func goid() int64 {
	var b [64]byte
	n := runtime.Stack(b[:], false)
	f := bytes.Fields(b[:n])
	id, _ := strconv.ParseInt(string(f[1]), 10, 64)
	return id
}

// Activate installs a new scheduler. Must be called inside a synctest bubble.
func Activate() *Sched {
	s := &Sched{byGoid: map[int64]*Task{}, locks: map[unsafe.Pointer]*lockState{}, onces: map[unsafe.Pointer]*onceState{},
		wgs: map[unsafe.Pointer]int{}, SiteHits: make([]uint32, NumSites()+1), SitePark: make([]uint32, NumSites()+1)}
	cur.Store(s)
	return s
}

// Deactivate removes the scheduler; instrumented code becomes pass-through again.
func Deactivate() { cur.Store(nil) }

// Active reports whether a scheduler is installed.
func Active() bool { return cur.Load() != nil }

func (s *Sched) me() *Task {
	g := goid()
	s.mu.Lock()
	t := s.byGoid[g]
	s.mu.Unlock()
	return t
}

// Spawn starts f as a named task, parked at its start (site 0).
func (s *Sched) Spawn(name string, f func()) *Task {
	t := &Task{Name: name, state: stParked, wake: make(chan struct{}), nchild: map[int]int{}}
	s.mu.Lock()
	s.tasks = append(s.tasks, t)
	s.mu.Unlock()
	go func() {
		g := goid()
		s.mu.Lock()
		s.byGoid[g] = t
		s.mu.Unlock()
		<-t.wake
		defer func() {
			if r := recover(); r != nil {
				s.mu.Lock()
				s.Events = append(s.Events, Event{Kind: "panic", Task: t.Name, Text: fmt.Sprint(r), Stack: string(debug.Stack())})
				s.mu.Unlock()
			}
			s.mu.Lock()
			t.state = stDone
			delete(s.byGoid, g)
			s.mu.Unlock()
		}()
		f()
	}()
	return t
}

func (s *Sched) park(t *Task, site int, why string, ptr unsafe.Pointer, guard func() bool) {
	s.mu.Lock()
	if s.free {
		s.mu.Unlock()
		return
	}
	t.state, t.Site, t.Why, t.LockPtr, t.guard = stParked, site, why, ptr, guard
	if site > 0 && site < len(s.SitePark) {
		s.SitePark[site]++
	}
	s.mu.Unlock()
	<-t.wake
}

// Tasks returns all tasks ever spawned (including finished ones).
func (s *Sched) Tasks() []*Task {
	s.mu.Lock()
	defer s.mu.Unlock()
	return append([]*Task(nil), s.tasks...)
}

// Enabled returns the parked tasks whose guard holds, sorted by name.
func (s *Sched) Enabled() []*Task {
	s.mu.Lock()
	defer s.mu.Unlock()
	var out []*Task
	for _, t := range s.tasks {
		if t.state == stParked && (t.guard == nil || t.guard()) {
			out = append(out, t)
		}
	}
	sort.Slice(out, func(i, j int) bool { return out[i].Name < out[j].Name })
	return out
}

// Blocked returns parked tasks whose guard does not hold (candidates for a deadlock report).
func (s *Sched) Blocked() []*Task {
	s.mu.Lock()
	defer s.mu.Unlock()
	var out []*Task
	for _, t := range s.tasks {
		if t.state == stParked && t.guard != nil && !t.guard() {
			out = append(out, t)
		}
	}
	sort.Slice(out, func(i, j int) bool { return out[i].Name < out[j].Name })
	return out
}

// Live returns the number of tasks that have not finished.
func (s *Sched) Live() []*Task {
	s.mu.Lock()
	defer s.mu.Unlock()
	var out []*Task
	for _, t := range s.tasks {
		if t.state != stDone {
			out = append(out, t)
		}
	}
	return out
}

// Holder describes who holds the lock a blocked task is waiting for (for deadlock reports).
func (s *Sched) Holder(t *Task) string {
	s.mu.Lock()
	defer s.mu.Unlock()
	if t.LockPtr == nil {
		return ""
	}
	l := s.locks[t.LockPtr]
	if l == nil {
		return ""
	}
	out := ""
	if l.writer != nil {
		out += "W:" + l.writer.Name
	}
	var rs []string
	for r := range l.readers {
		rs = append(rs, r.Name)
	}
	sort.Strings(rs)
	for _, r := range rs {
		out += " R:" + r
	}
	if l.pendingW > 0 {
		out += fmt.Sprintf(" pendingW=%d", l.pendingW)
	}
	return out
}

// Run wakes exactly one parked task and waits until every goroutine in the bubble is durably blocked again.
func (s *Sched) Run(t *Task) {
	s.mu.Lock()
	t.state = stRunning
	t.guard = nil
	t.Why = ""
	t.Steps++
	s.Steps++
	site := t.Site
	s.mu.Unlock()
	if s.Trace != nil {
		s.Trace(t.Name, site)
	}
	t.wake <- struct{}{}
	synctest.Wait()
}

// Release turns the scheduler off for the rest of the bubble: parked tasks are woken and everything runs
// free (real locks only). Used for teardown of runs that ended normally.
func (s *Sched) Release() {
	s.mu.Lock()
	s.free = true
	var ws []*Task
	for _, t := range s.tasks {
		if t.state == stParked {
			t.state = stRunning
			ws = append(ws, t)
		}
	}
	s.mu.Unlock()
	for _, t := range ws {
		t.wake <- struct{}{}
	}
}

// Abandon marks the scheduler dead without waking anybody (used after a detected deadlock: the parked
// goroutines are leaked, and the end-of-bubble panic is recovered by the harness).
func (s *Sched) Abandon() {
	s.mu.Lock()
	s.abandoned = true
	s.mu.Unlock()
}

func ctx() (*Sched, *Task) {
	s := cur.Load()
	if s == nil {
		return nil, nil
	}
	if s.free {
		return nil, nil
	}
	t := s.me()
	if t == nil {
		return s, nil
	}
	return s, t
}

func (s *Sched) armed(site int) bool {
	if site < 0 { // harness-placed mandatory points
		return true
	}
	if site < len(s.SiteHits) {
		s.SiteHits[site]++
	}
	if siteMandatory(site) || s.ArmAll {
		return true
	}
	return site < len(s.Armed) && s.Armed[site]
}

// ---------------- API used by instrumented code ----------------

// Yield is a schedule point.
func Yield(site int) {
	s, t := ctx()
	if t == nil {
		return
	}
	if !s.armed(site) {
		return
	}
	s.park(t, site, "", nil, nil)
}

func (s *Sched) ls(p unsafe.Pointer) *lockState {
	l := s.locks[p]
	if l == nil {
		l = &lockState{readers: map[*Task]int{}}
		s.locks[p] = l
	}
	return l
}

func (s *Sched) acquireW(t *Task, p unsafe.Pointer, site int) {
	s.mu.Lock()
	l := s.ls(p)
	can := func() bool { return l.writer == nil && len(l.readers) == 0 }
	if !can() {
		l.pendingW++
		s.mu.Unlock()
		s.park(t, site, "lock", p, can)
		s.mu.Lock()
		l.pendingW--
	}
	if !s.free {
		l.writer = t
	}
	s.mu.Unlock()
}

func (s *Sched) releaseW(t *Task, p unsafe.Pointer, site int) {
	s.mu.Lock()
	l := s.ls(p)
	l.writer = nil
	s.mu.Unlock()
}

func Lock(mu *sync.Mutex, site int) {
	if s, t := ctx(); t != nil {
		if s.armed(site) {
			s.park(t, site, "", nil, nil)
		}
		s.acquireW(t, unsafe.Pointer(mu), site)
	}
	mu.Lock()
}

func Unlock(mu *sync.Mutex, site int) {
	mu.Unlock()
	if s, t := ctx(); t != nil {
		s.releaseW(t, unsafe.Pointer(mu), site)
	}
}

func WLock(mu *sync.RWMutex, site int) {
	if s, t := ctx(); t != nil {
		if s.armed(site) {
			s.park(t, site, "", nil, nil)
		}
		s.acquireW(t, unsafe.Pointer(mu), site)
	}
	mu.Lock()
}

func WUnlock(mu *sync.RWMutex, site int) {
	mu.Unlock()
	if s, t := ctx(); t != nil {
		s.releaseW(t, unsafe.Pointer(mu), site)
	}
}

func RLock(mu *sync.RWMutex, site int) {
	if s, t := ctx(); t != nil {
		if s.armed(site) {
			s.park(t, site, "", nil, nil)
		}
		p := unsafe.Pointer(mu)
		s.mu.Lock()
		l := s.ls(p)
		if l.readers[t] > 0 {
			s.Events = append(s.Events, Event{Kind: "reentrant-rlock", Task: t.Name, Site: site, Text: SiteString(site)})
		}
		can := func() bool { return l.writer == nil && l.pendingW == 0 }
		if !can() {
			s.mu.Unlock()
			s.park(t, site, "rlock", p, can)
			s.mu.Lock()
		}
		if !s.free {
			l.readers[t]++
		}
		s.mu.Unlock()
	}
	mu.RLock()
}

func RUnlock(mu *sync.RWMutex, site int) {
	mu.RUnlock()
	if s, t := ctx(); t != nil {
		p := unsafe.Pointer(mu)
		s.mu.Lock()
		l := s.ls(p)
		if l.readers[t] > 1 {
			l.readers[t]--
		} else {
			delete(l.readers, t)
		}
		s.mu.Unlock()
	}
}

func OnceDo(o *sync.Once, f func(), site int) {
	if s, t := ctx(); t != nil {
		if s.armed(site) {
			s.park(t, site, "", nil, nil)
		}
		p := unsafe.Pointer(o)
		s.mu.Lock()
		st := s.onces[p]
		if st == nil {
			st = &onceState{}
			s.onces[p] = st
		}
		if !st.done && st.runner != nil && st.runner != t {
			s.mu.Unlock()
			s.park(t, site, "once", p, func() bool { return st.done })
			s.mu.Lock()
		}
		if !st.done && st.runner == nil {
			st.runner = t
			s.mu.Unlock()
			defer func() {
				s.mu.Lock()
				st.done = true
				s.mu.Unlock()
			}()
			o.Do(f)
			return
		}
		s.mu.Unlock()
	}
	o.Do(f)
}

func WGAdd(wg *sync.WaitGroup, n int, site int) {
	if s := cur.Load(); s != nil {
		s.mu.Lock()
		s.wgs[unsafe.Pointer(wg)] += n
		s.mu.Unlock()
	}
	wg.Add(n)
}

func WGDone(wg *sync.WaitGroup, site int) {
	if s := cur.Load(); s != nil {
		s.mu.Lock()
		s.wgs[unsafe.Pointer(wg)]--
		s.mu.Unlock()
	}
	wg.Done()
}

func WGWait(wg *sync.WaitGroup, site int) {
	if s, t := ctx(); t != nil {
		if s.armed(site) {
			s.park(t, site, "", nil, nil)
		}
		p := unsafe.Pointer(wg)
		s.mu.Lock()
		zero := s.wgs[p] <= 0
		s.mu.Unlock()
		if !zero {
			s.park(t, site, "wg", p, func() bool { return s.wgs[p] <= 0 })
		}
	}
	wg.Wait()
}

// PoolGet / PoolPut stand in for sync.Pool.Get / Put. Which per-P cache of the real pool holds an object is
// the Go runtime's choice, not the simulator's: under a scheduler the pool is a deterministic LIFO free list.
// With PoolPoints set there is a schedule point before Get and one after the object has become available in
// Put (so that another task can take it before the putting caller continues); without it no schedule point
// is added and the schedules of every other profile are unchanged.
func PoolGet(p *sync.Pool) any {
	s, t := ctx()
	if t == nil {
		return p.Get()
	}
	if s.PoolPoints {
		s.park(t, -1, "", nil, nil)
	}
	var x any
	s.mu.Lock()
	if l := s.pools[unsafe.Pointer(p)]; len(l) > 0 {
		x = l[len(l)-1]
		s.pools[unsafe.Pointer(p)] = l[:len(l)-1]
	}
	s.mu.Unlock()
	if x == nil && p.New != nil {
		x = p.New()
	}
	return x
}

func PoolPut(p *sync.Pool, x any) {
	s, t := ctx()
	if t == nil {
		p.Put(x)
		return
	}
	s.mu.Lock()
	if s.pools == nil {
		s.pools = map[unsafe.Pointer][]any{}
	}
	s.pools[unsafe.Pointer(p)] = append(s.pools[unsafe.Pointer(p)], x)
	s.mu.Unlock()
	if s.PoolPoints {
		s.park(t, -1, "", nil, nil)
	}
}

// WGCount returns the shadow counter of a WaitGroup (used by oracles).
func (s *Sched) WGCount(wg *sync.WaitGroup) int {
	s.mu.Lock()
	defer s.mu.Unlock()
	return s.wgs[unsafe.Pointer(wg)]
}

// Go starts f as a child task (or as a plain goroutine when no scheduler is active).
func Go(site int, f func()) {
	s, t := ctx()
	if s == nil {
		go f()
		return
	}
	s.mu.Lock()
	var name string
	if t != nil {
		t.nchild[site]++
		name = fmt.Sprintf("%s/g%d#%d", t.Name, site, t.nchild[site])
	} else {
		s.idCounter++
		name = fmt.Sprintf("ext/g%d#%d", site, s.idCounter)
	}
	s.mu.Unlock()
	s.Spawn(name, f)
	if t != nil && s.armed(site) {
		s.park(t, site, "", nil, nil)
	}
}

// Adopt makes the calling (unknown) goroutine a task and parks it; used where third-party code calls into
// the broker on its own goroutine (net/http serving a websocket upgrade).
func Adopt(prefix string) {
	s := cur.Load()
	if s == nil || s.free {
		return
	}
	if s.me() != nil {
		return
	}
	s.mu.Lock()
	s.idCounter++
	t := &Task{Name: fmt.Sprintf("%s#%d", prefix, s.idCounter), state: stRunning, wake: make(chan struct{}), nchild: map[int]int{}}
	s.tasks = append(s.tasks, t)
	s.byGoid[goid()] = t
	s.mu.Unlock()
	s.park(t, -9, "", nil, nil)
}

// Retire marks the calling adopted task as finished.
func Retire() {
	s := cur.Load()
	if s == nil {
		return
	}
	g := goid()
	s.mu.Lock()
	if t := s.byGoid[g]; t != nil {
		t.state = stDone
		delete(s.byGoid, g)
	}
	s.mu.Unlock()
}

// Now is the wall clock the broker reads.
func Now() time.Time {
	if s := cur.Load(); s != nil && s.WallOffset != 0 {
		return time.Now().Add(s.WallOffset)
	}
	return time.Now()
}

var freeID atomic.Int64

// NewID replaces xid.New().String().
func NewID() string {
	if s := cur.Load(); s != nil {
		s.mu.Lock()
		s.idCounter++
		n := s.idCounter
		s.mu.Unlock()
		return fmt.Sprintf("sim%017d", n)
	}
	return fmt.Sprintf("sim%017d", freeID.Add(1)+1000000)
}

// NumGoroutine replaces runtime.NumGoroutine (whose value would leak real scheduling into $SYS payloads).
func NumGoroutine() int {
	if cur.Load() != nil {
		return 1
	}
	return runtime.NumGoroutine()
}

// ReadMemStats replaces runtime.ReadMemStats.
func ReadMemStats(m *runtime.MemStats) {
	if cur.Load() != nil {
		*m = runtime.MemStats{}
		return
	}
	runtime.ReadMemStats(m)
}

// SelectOrder returns the order in which a rewritten select polls its clauses.
func SelectOrder(site int, n int) []int {
	o := make([]int, n)
	for i := range o {
		o[i] = i
	}
	if s, t := ctx(); t != nil && n > 1 && s.Draw != nil {
		for i := 0; i < n-1; i++ {
			k := i + s.Draw("order.select", n-i)
			o[i], o[k] = o[k], o[i]
		}
	}
	return o
}

// Keys returns the keys of m in a simulator-chosen order (sorted, then permuted).
func Keys[M ~map[K]V, K comparable, V any](m M, site int) []K {
	ks := make([]K, 0, len(m))
	for k := range m {
		ks = append(ks, k)
	}
	if len(ks) < 2 {
		return ks
	}
	sort.Slice(ks, func(i, j int) bool { return less(reflect.ValueOf(ks[i]), reflect.ValueOf(ks[j])) })
	if s, t := ctx(); t != nil && s.Draw != nil {
		switch mode := s.Draw("order.map.mode", 4); mode {
		case 0: // sorted
		case 1: // reversed
			for i, j := 0, len(ks)-1; i < j; i, j = i+1, j-1 {
				ks[i], ks[j] = ks[j], ks[i]
			}
		case 2: // rotated
			r := s.Draw("order.map.rot", len(ks))
			ks = append(ks[r:], ks[:r]...)
		default: // full permutation
			for i := 0; i < len(ks)-1; i++ {
				k := i + s.Draw("order.map.perm", len(ks)-i)
				ks[i], ks[k] = ks[k], ks[i]
			}
		}
	}
	return ks
}

func less(a, b reflect.Value) bool {
	switch a.Kind() {
	case reflect.String:
		return a.String() < b.String()
	case reflect.Int, reflect.Int8, reflect.Int16, reflect.Int32, reflect.Int64:
		return a.Int() < b.Int()
	case reflect.Uint, reflect.Uint8, reflect.Uint16, reflect.Uint32, reflect.Uint64:
		return a.Uint() < b.Uint()
	}
	return fmt.Sprint(a.Interface()) < fmt.Sprint(b.Interface())
}

// SimTicker is a ticker whose ticks are delivered by the simulator (one at a time, in an order it chooses),
// so that a goroutine blocked in a multi-way select is never completed by "whichever runtime timer fired
// first" — which is not a decision the simulator owns.
type SimTicker struct {
	C       chan time.Time
	Period  time.Duration
	Next    time.Time
	Site    int
	T       *time.Ticker
}

// NewTicker replaces time.NewTicker in instrumented code.
func NewTicker(d time.Duration) *time.Ticker {
	s := cur.Load()
	if s == nil || s.free {
		return time.NewTicker(d)
	}
	ch := make(chan time.Time, 1)
	tk := &time.Ticker{C: ch}
	s.mu.Lock()
	s.Tickers = append(s.Tickers, &SimTicker{C: ch, Period: d, Next: time.Now().Add(d), T: tk})
	s.mu.Unlock()
	return tk
}

// DueTickers returns the simulated tickers whose next tick is due at or before now, in creation order.
func (s *Sched) DueTickers(now time.Time) []*SimTicker {
	s.mu.Lock()
	defer s.mu.Unlock()
	var out []*SimTicker
	for _, t := range s.Tickers {
		if !t.Next.After(now) {
			out = append(out, t)
		}
	}
	return out
}

// NextTick returns the earliest pending tick time (zero if there are no tickers).
func (s *Sched) NextTick() time.Time {
	s.mu.Lock()
	defer s.mu.Unlock()
	var best time.Time
	for _, t := range s.Tickers {
		if best.IsZero() || t.Next.Before(best) {
			best = t.Next
		}
	}
	return best
}

// Fire delivers one tick (dropped if the previous one has not been consumed, like a real ticker).
func (t *SimTicker) Fire(now time.Time) {
	select {
	case t.C <- now:
	default:
	}
	for !t.Next.After(now) {
		t.Next = t.Next.Add(t.Period)
	}
}
