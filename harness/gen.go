package harness

import (
	"fmt"
	"strings"

	"verifharness/refcodec"
)

// Knobs parameterise the general history generator; every profile starts from defaults and biases them.
type Knobs struct {
	Slots   int
	IDs     []string
	Topics  []string
	Filters []string
	Ops     int
	// operation weights
	WConnect, WSub, WUnsub, WPub, WDisc, WDrop, WPing, WAdv, WAck, WStall, WInlinePub, WInlineSub, WInlineUnsub, WRetrans, WServerClose, WFailWrite int
	V5Pct      int // chance that a connection speaks MQTT 5
	V3Pct      int // chance (of the rest) that it speaks 3.1 instead of 3.1.1
	CleanPct   int
	WillPct    int
	RetainPct  int
	ConcPct    int // chance that an op is issued concurrently with the next one
	ManualAckPct int
	QosW       [3]int
	SubQosW    [3]int
	ExpiryChoices []uint32 // session expiry values for v5 connects (0xFFFFFFFF = absent)
	KeepAlives []uint16
	RecvMaxChoices []uint16 // 0 = absent
	AliasMaxChoices []uint16
	MaxPktChoices []uint32
	MsgExpiryChoices []uint32
	WillDelayChoices []uint32
	PropsPct   int // chance a v5 publish carries content type / correlation / response topic / user props
	SubIDPct   int
	NoLocalPct int
	RAPPct     int
	RHW        [3]int
	AdvMs      []int
	PadMax     int
	SharedFilters []string
	UseAliasPct int
	MultiFilterPct int
	ProblemInfoOffPct int
}

func DefaultKnobs() Knobs {
	return Knobs{
		Slots: 3, IDs: []string{"a", "b", "c"}, Topics: []string{"t", "t/a", "t/b", "u"}, Filters: []string{"t", "t/a", "t/+", "t/#", "#", "u", "+/a"},
		Ops: 14, WConnect: 3, WSub: 4, WUnsub: 1, WPub: 8, WDisc: 1, WDrop: 1, WPing: 0,
		V5Pct: 50, CleanPct: 50, QosW: [3]int{3, 2, 2}, SubQosW: [3]int{2, 2, 2},
		ExpiryChoices: []uint32{0xFFFFFFFF, 0, 60, 3600}, KeepAlives: []uint16{0}, RecvMaxChoices: []uint16{0}, AliasMaxChoices: []uint16{0},
		MaxPktChoices: []uint32{0}, MsgExpiryChoices: []uint32{0}, WillDelayChoices: []uint32{0}, RHW: [3]int{4, 1, 1}, AdvMs: []int{1000, 2500}, PadMax: 0,
	}
}

type genSlot struct {
	connected bool
	ver       byte
	id        string
	nextPID   uint16
	subs      []string
}

type Gen struct {
	t     *Tape
	k     *Knobs
	plan  *Plan
	slots []*genSlot
	inlineSubs []struct{ f string; id int }
}

func pickStr(t *Tape, label string, xs []string) string { return xs[t.Draw(label, len(xs))] }

// GenSchedConfig draws the scheduler / fault part of the configuration (swarm).
func GenSchedConfig(t *Tape, cfg *Config) {
	cfg.Strategy = []int{0, 2, 1, 3}[t.Pick("cfg.strategy", []int{2, 4, 2, 2})]
	cfg.PreemptPct = []int{5, 20, 50}[t.Draw("cfg.preempt", 3)]
	cfg.PCTDepth = 1 + t.Draw("cfg.pctdepth", 3)
	cfg.ArmMode = []int{0, 2, 1, 3}[t.Pick("cfg.armmode", []int{2, 3, 1, 2})]
	cfg.ArmPct = []int{5, 20, 50}[t.Draw("cfg.armpct", 3)]
	cfg.ArmSeed = uint32(t.Draw("cfg.armseed", 1<<20))
	cfg.MapOrder = t.Draw("cfg.maporder", 2) == 1
	cfg.SelOrder = t.Draw("cfg.selorder", 2) == 1
	cfg.ChunkPct = []int{0, 0, 20, 60}[t.Draw("cfg.chunk", 4)]
}

func NewGen(t *Tape, k *Knobs, profile string) *Gen {
	g := &Gen{t: t, k: k, plan: &Plan{Profile: profile}}
	g.plan.Cfg.MaxQos = 2
	g.plan.Cfg.Auth = "allow"
	g.plan.Cfg.TopicAliasMax = 0
	for i := 0; i < k.Slots; i++ {
		g.slots = append(g.slots, &genSlot{id: k.IDs[i%len(k.IDs)], nextPID: uint16(10 + 100*i)})
	}
	return g
}

func (g *Gen) add(op Op) int {
	if g.k.ConcPct > 0 && g.t.Chance("op.concurrent", g.k.ConcPct, 100) {
		op.Concurrent = true
	}
	g.plan.Ops = append(g.plan.Ops, op)
	return len(g.plan.Ops) - 1
}

func (g *Gen) payload(opIdx int) string {
	s := fmt.Sprintf("m%d", opIdx)
	if g.k.PadMax > 0 {
		if n := g.t.Draw("pub.pad", g.k.PadMax+1); n > 0 {
			s += "." + strings.Repeat("x", n)
		}
	}
	return s
}

// Connect generates a CONNECT for a slot.
func (g *Gen) Connect(slot int) int {
	s := g.slots[slot]
	t, k := g.t, g.k
	ver := byte(4)
	if t.Chance("conn.v5", k.V5Pct, 100) {
		ver = 5
	} else if t.Chance("conn.v3", k.V3Pct, 100) {
		ver = 3
	}
	p := &refcodec.Packet{Type: refcodec.CONNECT, ProtoVer: ver, ClientID: s.id, CleanStart: t.Chance("conn.clean", k.CleanPct, 100)}
	p.KeepAlive = k.KeepAlives[t.Draw("conn.keepalive", len(k.KeepAlives))]
	if ver == 5 {
		if e := k.ExpiryChoices[t.Draw("conn.expiry", len(k.ExpiryChoices))]; e != 0xFFFFFFFF {
			p.Props = append(p.Props, refcodec.Prop{ID: refcodec.PSessionExpiry, Int: e})
		}
		if rm := k.RecvMaxChoices[t.Draw("conn.recvmax", len(k.RecvMaxChoices))]; rm != 0 {
			p.Props = append(p.Props, refcodec.Prop{ID: refcodec.PReceiveMaximum, Int: uint32(rm)})
		}
		if am := k.AliasMaxChoices[t.Draw("conn.aliasmax", len(k.AliasMaxChoices))]; am != 0 {
			p.Props = append(p.Props, refcodec.Prop{ID: refcodec.PTopicAliasMaximum, Int: uint32(am)})
		}
		if mp := k.MaxPktChoices[t.Draw("conn.maxpkt", len(k.MaxPktChoices))]; mp != 0 {
			p.Props = append(p.Props, refcodec.Prop{ID: refcodec.PMaximumPacketSize, Int: mp})
		}
		if t.Chance("conn.noproblem", k.ProblemInfoOffPct, 100) {
			p.Props = append(p.Props, refcodec.Prop{ID: refcodec.PRequestProblem, Int: 0})
		}
	}
	opIdx := len(g.plan.Ops)
	if t.Chance("conn.will", k.WillPct, 100) {
		w := &refcodec.Will{Topic: pickStr(t, "will.topic", k.Topics), Payload: fmt.Sprintf("w%d", opIdx), Qos: byte(t.Pick("will.qos", k.QosW[:])), Retain: t.Chance("will.retain", k.RetainPct, 100)}
		if ver == 5 {
			if d := k.WillDelayChoices[t.Draw("will.delay", len(k.WillDelayChoices))]; d != 0 {
				w.Props = append(w.Props, refcodec.Prop{ID: refcodec.PWillDelay, Int: d})
			}
		}
		p.Will = w
	}
	am := 0
	if t.Chance("conn.manualack", k.ManualAckPct, 100) {
		am = 1
	}
	s.connected, s.ver = true, ver
	if p.CleanStart {
		s.subs = nil
	}
	return g.add(Op{Kind: "connect", Slot: slot, Pkt: p, AckMode: am})
}

func (g *Gen) ensureConnected(slot int) {
	if !g.slots[slot].connected {
		g.Connect(slot)
	}
}

func (g *Gen) pid(slot int) uint16 {
	s := g.slots[slot]
	s.nextPID++
	return s.nextPID
}

func (g *Gen) subOpts(ver byte) byte {
	t, k := g.t, g.k
	o := byte(t.Pick("sub.qos", k.SubQosW[:]))
	if ver == 5 {
		if t.Chance("sub.nolocal", k.NoLocalPct, 100) {
			o |= 4
		}
		if t.Chance("sub.rap", k.RAPPct, 100) {
			o |= 8
		}
		o |= byte(t.Pick("sub.rh", k.RHW[:])) << 4
	}
	return o
}

func (g *Gen) Subscribe(slot int) int {
	g.ensureConnected(slot)
	s := g.slots[slot]
	t, k := g.t, g.k
	p := &refcodec.Packet{Type: refcodec.SUBSCRIBE, PacketID: g.pid(slot)}
	n := 1
	if t.Chance("sub.multi", k.MultiFilterPct, 100) {
		n = 2 + t.Draw("sub.nfilters", 2)
	}
	for i := 0; i < n; i++ {
		all := k.Filters
		if len(k.SharedFilters) > 0 && t.Chance("sub.shared", 40, 100) {
			all = k.SharedFilters
		}
		f := pickStr(t, "sub.filter", all)
		opts := g.subOpts(s.ver)
		if strings.HasPrefix(f, "$share/") {
			opts &^= 4 // no-local on a shared subscription is a protocol error; generated separately
		}
		p.Filters = append(p.Filters, refcodec.Filter{Filter: f, Opts: opts})
		s.subs = append(s.subs, f)
	}
	if s.ver == 5 && t.Chance("sub.id", k.SubIDPct, 100) {
		p.Props = append(p.Props, refcodec.Prop{ID: refcodec.PSubscriptionID, Int: uint32(1 + t.Draw("sub.idval", 5))})
	}
	return g.add(Op{Kind: "subscribe", Slot: slot, Pkt: p})
}

func (g *Gen) Unsubscribe(slot int) int {
	g.ensureConnected(slot)
	s := g.slots[slot]
	t, k := g.t, g.k
	var f string
	if len(s.subs) > 0 && t.Chance("unsub.known", 70, 100) {
		f = s.subs[t.Draw("unsub.which", len(s.subs))]
	} else {
		f = pickStr(t, "unsub.filter", k.Filters)
	}
	p := &refcodec.Packet{Type: refcodec.UNSUBSCRIBE, PacketID: g.pid(slot), Filters: []refcodec.Filter{{Filter: f}}}
	return g.add(Op{Kind: "unsubscribe", Slot: slot, Pkt: p})
}

func (g *Gen) Publish(slot int) int {
	g.ensureConnected(slot)
	s := g.slots[slot]
	t, k := g.t, g.k
	opIdx := len(g.plan.Ops)
	p := &refcodec.Packet{Type: refcodec.PUBLISH, Topic: pickStr(t, "pub.topic", k.Topics), Qos: byte(t.Pick("pub.qos", k.QosW[:])), Retain: t.Chance("pub.retain", k.RetainPct, 100)}
	p.Payload = g.payload(opIdx)
	if p.Qos > 0 {
		p.PacketID = g.pid(slot)
	}
	if s.ver == 5 {
		if e := k.MsgExpiryChoices[t.Draw("pub.expiry", len(k.MsgExpiryChoices))]; e != 0 {
			p.Props = append(p.Props, refcodec.Prop{ID: refcodec.PMessageExpiry, Int: e})
		}
		if t.Chance("pub.props", k.PropsPct, 100) {
			p.Props = append(p.Props, refcodec.Prop{ID: refcodec.PContentType, Str: "ct/" + p.Payload})
			p.Props = append(p.Props, refcodec.Prop{ID: refcodec.PResponseTopic, Str: "resp/" + p.Payload})
			p.Props = append(p.Props, refcodec.Prop{ID: refcodec.PCorrelationData, Str: "corr-" + p.Payload})
			p.Props = append(p.Props, refcodec.Prop{ID: refcodec.PUserProperty, Key: "k1", Str: "v-" + p.Payload})
			p.Props = append(p.Props, refcodec.Prop{ID: refcodec.PUserProperty, Key: "k1", Str: "second"})
		}
	}
	return g.add(Op{Kind: "publish", Slot: slot, Pkt: p})
}

func (g *Gen) Disconnect(slot int) {
	s := g.slots[slot]
	if !s.connected {
		return
	}
	p := &refcodec.Packet{Type: refcodec.DISCONNECT}
	g.add(Op{Kind: "disconnect", Slot: slot, Pkt: p})
	g.plan.Ops = append(g.plan.Ops, Op{Kind: "close", Slot: slot})
	s.connected = false
}

func (g *Gen) Drop(slot int) {
	s := g.slots[slot]
	if !s.connected {
		return
	}
	g.add(Op{Kind: "drop", Slot: slot})
	s.connected = false
}

// Step generates one operation according to the weights.
func (g *Gen) Step() {
	t, k := g.t, g.k
	slot := t.Draw("op.slot", k.Slots)
	w := []int{k.WPub, k.WSub, k.WConnect, k.WUnsub, k.WDisc, k.WDrop, k.WPing, k.WAdv, k.WAck, k.WStall, k.WInlinePub, k.WInlineSub, k.WInlineUnsub, k.WServerClose, k.WFailWrite}
	switch t.Pick("op.kind", w) {
	case 0:
		g.Publish(slot)
	case 1:
		g.Subscribe(slot)
	case 2:
		g.Connect(slot)
	case 3:
		g.Unsubscribe(slot)
	case 4:
		g.Disconnect(slot)
	case 5:
		g.Drop(slot)
	case 6:
		g.ensureConnected(slot)
		g.add(Op{Kind: "ping", Slot: slot, Pkt: &refcodec.Packet{Type: refcodec.PINGREQ}})
	case 7:
		g.add(Op{Kind: "advance", Ms: k.AdvMs[t.Draw("adv.ms", len(k.AdvMs))]})
	case 8:
		g.add(Op{Kind: "ack", Slot: slot, N: t.Draw("ack.which", 3)})
	case 9:
		g.ensureConnected(slot)
		g.add(Op{Kind: "stall", Slot: slot})
	case 10:
		opIdx := len(g.plan.Ops)
		g.add(Op{Kind: "inline_pub", Pkt: &refcodec.Packet{Type: refcodec.PUBLISH, Topic: pickStr(t, "ipub.topic", k.Topics), Qos: byte(t.Pick("ipub.qos", k.QosW[:])),
			Retain: t.Chance("ipub.retain", k.RetainPct, 100), Payload: g.payload(opIdx)}})
	case 11:
		f := pickStr(t, "isub.filter", k.Filters)
		id := 1 + t.Draw("isub.id", 3)
		g.inlineSubs = append(g.inlineSubs, struct {
			f  string
			id int
		}{f, id})
		g.add(Op{Kind: "inline_sub", Str: f, N: id})
	case 12:
		if len(g.inlineSubs) > 0 && t.Chance("iunsub.known", 80, 100) {
			x := g.inlineSubs[t.Draw("iunsub.which", len(g.inlineSubs))]
			g.add(Op{Kind: "inline_unsub", Str: x.f, N: x.id})
		} else {
			g.add(Op{Kind: "inline_unsub", Str: pickStr(t, "iunsub.filter", k.Filters), N: 1 + t.Draw("iunsub.id", 3)})
		}
	case 13:
		g.add(Op{Kind: "server_close"})
	case 14:
		g.ensureConnected(slot)
		kind := ""
		if t.Draw("failwrite.kind", 2) == 1 {
			kind = "short"
		}
		g.add(Op{Kind: "failwrite", Slot: slot, N: t.Draw("failwrite.n", 3), Fault: kind})
	}
}

func (g *Gen) Run() *Plan {
	n := g.k.Ops/2 + g.t.Draw("plan.len", g.k.Ops/2+1)
	for len(g.plan.Ops) < n {
		g.Step()
	}
	// the last op always waits for quiescence
	if len(g.plan.Ops) > 0 {
		g.plan.Ops[len(g.plan.Ops)-1].Concurrent = false
	}
	return g.plan
}
