package harness

import (
	"fmt"
	"io"
	"log/slog"
	"math"
	"sort"
	"strings"
	"testing"
	"testing/synctest"
	"time"

	mqtt "github.com/mochi-mqtt/server/v2"
	"github.com/mochi-mqtt/server/v2/hooks/auth"
	"github.com/mochi-mqtt/server/v2/listeners"
	"github.com/mochi-mqtt/server/v2/packets"
	"github.com/mochi-mqtt/server/v2/system"
	"github.com/mochi-mqtt/server/v2/verifsim"
	"verifharness/refcodec"
)

// Probe is the broker state observed at a quiescent point through its public API (plus generated
// accessors for unexported counters).
type Probe struct {
	Info          system.Info        `json:"-"`
	Connected     int64              `json:"connected"`
	Subscriptions int64              `json:"subscriptions"`
	Retained      int64              `json:"retained"`
	Inflight      int64              `json:"inflight"`
	InflightDropped int64            `json:"inflightDropped"`
	MessagesDropped int64            `json:"messagesDropped"`
	ActClientSubs int                `json:"actClientSubs"`
	ActSharedSubs int                `json:"actSharedSubs"`
	ActInlineSubs int                `json:"actInlineSubs"`
	ActRetained   int                `json:"actRetained"`
	ActInflight   int                `json:"actInflight"`
	Clients       map[string]ClientProbe `json:"clients"`
	RetainedTopics []string          `json:"retainedTopics"`
	WillDelayed   []string           `json:"willDelayed,omitempty"`
	OpenConns     int                `json:"openConns"`
}

type ClientProbe struct {
	Conn     int   `json:"conn"`
	Closed   bool  `json:"closed"`
	Inflight int   `json:"inflight"`
	Outbound int   `json:"outbound"`
	Outbuf   int   `json:"outbuf"`
	Subs     int   `json:"subs"`
	TakenOver bool `json:"takenOver"`
	RecvQ, SendQ, MaxRecvQ, MaxSendQ int32
	InflightIDs []uint16 `json:"inflightIDs,omitempty"`
}

type Stats struct {
	Steps      int            `json:"steps"`
	Decisions  int            `json:"decisions"`
	Preempts   int            `json:"preempts"`
	Faults     map[string]int `json:"faults"`
	Truncated  bool           `json:"truncated"`
	SimMs      int64          `json:"simMs"`
	Quiesces   int            `json:"quiesces"`
	Deliveries int            `json:"deliveries"`
	Chunked    int            `json:"chunked"`
	Holds      int            `json:"holds"`
}

type DeadlockInfo struct {
	Tasks  []string `json:"tasks"`
	OnlyWG bool     `json:"onlyWG"` // every blocked task waits on a WaitGroup (shutdown hang), no lock is involved
}

// Ex executes one plan under the simulator.
type Ex struct {
	t     *testing.T
	Plan  *Plan
	tape  *Tape
	sc    *verifsim.Sched
	Srv   *mqtt.Server
	lst   *simListener
	nl    *simNetListener
	wsl   *listeners.Websocket
	rec   *Recorder
	Conns []*Conn
	slots map[int]*Conn
	H     *History
	cur   *verifsim.Task
	Stats Stats
	Deadlock *DeadlockInfo
	Panics   []verifsim.Event
	Reentrant []verifsim.Event
	opSeq    []int // per op: seq of its "op" event
	opQuiesce []int // per op: seq of the quiescence that followed (or -1)
	prio     map[string]int
	lowPrio  int
	pctChange map[int]bool
	holds    map[*verifsim.Task]int
	start    time.Time
	serverClosed bool
	nClose    int
	closeTask *verifsim.Task
	closeReturnedSeq int
	apiTasks []*verifsim.Task
	inlineGot []InlineMsg
	focus    []bool
	aborted  bool
	faultSeen map[string]bool
	SiteHits []uint32
	SitePark []uint32
	LiveAtEnd []string
	extra    func(*Ex) // profile-specific server setup
	RestartFn func(*Ex) // engine B
}

type InlineMsg struct {
	Seq     int
	SubID   int
	Filter  string
	Topic   string
	Payload string
	Retain  bool
	Qos     byte
}

func (ex *Ex) fault(kind string, conn int) {
	ex.Stats.Faults[kind]++
	ex.H.add(&Ev{Kind: "fault", Str: kind, Conn: conn})
}

func (ex *Ex) faultOnce(kind string, conn int) {
	key := fmt.Sprintf("%s/%d", kind, conn)
	if ex.faultSeen[key] {
		return
	}
	ex.faultSeen[key] = true
	ex.fault(kind, conn)
}

func (ex *Ex) vt() int64 { return time.Since(ex.start).Milliseconds() }

func (ex *Ex) draw(label string, n int) int {
	ex.Stats.Decisions++
	return ex.tape.Draw(label, n)
}

// ---------------------------------------------------------------------------------------------------

func (ex *Ex) buildServer() {
	ex.buildServerOnly()
	if storeSetup != nil {
		storeSetup(ex)
	}
}

// buildServerOnly creates a broker with the run's configuration, hooks and listener (used at the start of a
// run and again by engine B when the broker is restarted on the same store).
func (ex *Ex) buildServerOnly() {
	cfg := &ex.Plan.Cfg
	caps := mqtt.NewDefaultServerCapabilities()
	caps.MaximumQos = cfg.MaxQos
	if cfg.MaxClients > 0 {
		caps.MaximumClients = cfg.MaxClients
	}
	if cfg.ReceiveMax > 0 {
		caps.ReceiveMaximum = cfg.ReceiveMax
	}
	if cfg.MaxInflight > 0 {
		caps.MaximumInflight = cfg.MaxInflight
	}
	if cfg.WritesPending > 0 {
		caps.MaximumClientWritesPending = cfg.WritesPending
	}
	caps.MaximumPacketSize = cfg.MaxPacketSize
	caps.TopicAliasMaximum = cfg.TopicAliasMax
	if cfg.MaxMsgExpiry > 0 {
		caps.MaximumMessageExpiryInterval = cfg.MaxMsgExpiry
	}
	if cfg.NoMsgExpiryCap {
		caps.MaximumMessageExpiryInterval = 0
	}
	if cfg.MaxSessExpiry > 0 {
		caps.MaximumSessionExpiryInterval = cfg.MaxSessExpiry
	}
	if cfg.RetainOff {
		caps.RetainAvailable = 0
	}
	if cfg.SharedOff {
		caps.SharedSubAvailable = 0
	}
	if cfg.MinProto > 0 {
		caps.MinimumProtocolVersion = cfg.MinProto
	}
	caps.Compatibilities.ObscureNotAuthorized = cfg.Obscure
	sysInt := cfg.SysInterval
	if sysInt == 0 {
		sysInt = 3600
	}
	opts := &mqtt.Options{
		Capabilities:             caps,
		ClientNetWriteBufferSize: cfg.WriteBuf,
		ClientNetReadBufferSize:  cfg.ReadBuf,
		Logger:                   slog.New(slog.NewTextHandler(io.Discard, nil)),
		SysTopicResendInterval:   sysInt,
		InlineClient:             cfg.Inline,
	}
	s := mqtt.New(opts)
	if cfg.MaxPacketID > 0 {
		s.VerifSetMaxPacketID(cfg.MaxPacketID)
	}
	ex.Srv = s
	ex.rec = &Recorder{ex: ex}
	_ = s.AddHook(ex.rec, nil)
	switch cfg.Auth {
	case "allow":
		_ = s.AddHook(new(auth.AllowHook), nil)
	case "perm":
		_ = s.AddHook(&PermHook{cfg: cfg}, nil)
	case "none":
	}
	for i, hs := range cfg.Hooks {
		_ = s.AddHook(&ProgHook{ex: ex, idx: i, spec: hs}, nil)
	}
	if ex.extra != nil {
		ex.extra(ex)
	}
	switch cfg.Listener {
	case "tcp":
		ex.nl = newSimNetListener()
		_ = s.AddListener(listeners.NewSimTCP("sim", ex.nl))
	default:
		ex.lst = &simListener{id: "sim", done: make(chan struct{})}
		_ = s.AddListener(ex.lst)
		ex.wsl = nil
		if cfg.Listener == "ws" {
			ex.wsl = listeners.NewWebsocket(listeners.Config{ID: "sim", Address: "sim"})
		}
	}
}

func (ex *Ex) computeArming() {
	cfg := &ex.Plan.Cfg
	n := verifsim.NumSites()
	armed := make([]bool, n+1)
	ex.focus = make([]bool, n+1)
	for i := 1; i <= n; i++ {
		si := verifsim.Sites[i]
		isFocus := false
		for _, f := range cfg.ArmFocus {
			if strings.Contains(si.Func, f) || strings.Contains(si.File+":"+si.Kind, f) {
				isFocus = true
			}
		}
		ex.focus[i] = isFocus
		switch cfg.ArmMode {
		case 1:
			armed[i] = true
		case 2:
			armed[i] = int(mix(uint64(cfg.ArmSeed)*1315423911+uint64(i))%100) < cfg.ArmPct
		case 3:
			armed[i] = isFocus || int(mix(uint64(cfg.ArmSeed)*1315423911+uint64(i))%100) < cfg.ArmPct
		}
	}
	ex.sc.Armed = armed
}

// ---------------------------------------------------------------------------------------------------
// actions and strategies

type action struct {
	task *verifsim.Task
	conn *Conn // deliver
	key  string
}

func (ex *Ex) actions() []action {
	var acts []action
	for _, t := range ex.sc.Enabled() {
		if n, held := ex.holds[t]; held && n > 0 {
			continue
		}
		acts = append(acts, action{task: t, key: "t:" + t.Name})
	}
	for _, c := range ex.Conns {
		if len(c.pending) > 0 && !c.isClosed() {
			acts = append(acts, action{conn: c, key: fmt.Sprintf("d:%d", c.Idx)})
		}
	}
	if len(acts) == 0 && len(ex.holds) > 0 { // nothing else can run: release holds
		for t := range ex.holds {
			delete(ex.holds, t)
		}
		for _, t := range ex.sc.Enabled() {
			acts = append(acts, action{task: t, key: "t:" + t.Name})
		}
	}
	// default choice first: continue the task that ran last
	if ex.cur != nil {
		for i, a := range acts {
			if a.task == ex.cur {
				acts[0], acts[i] = acts[i], acts[0]
				break
			}
		}
	}
	return acts
}

func (ex *Ex) choose(acts []action) action {
	cfg := &ex.Plan.Cfg
	n := len(acts)
	if n == 1 {
		return acts[0]
	}
	switch cfg.Strategy {
	case 1:
		k := ex.draw("sched.pick", n)
		if k != 0 {
			ex.Stats.Preempts++
		}
		return acts[k]
	case 2:
		if ex.tape.Chance("sched.preempt", cfg.PreemptPct, 100) {
			ex.Stats.Decisions++
			k := ex.draw("sched.pick", n)
			if k != 0 {
				ex.Stats.Preempts++
			}
			return acts[k]
		}
		return acts[0]
	case 3: // PCT: highest priority enabled action runs; priorities drop at change points
		best := -1
		for i, a := range acts {
			p, ok := ex.prio[a.key]
			if !ok {
				p = 1000 + ex.draw("sched.prio", 1000)
				ex.prio[a.key] = p
			}
			if best < 0 || p > ex.prio[acts[best].key] {
				best = i
			}
		}
		if ex.pctChange[ex.Stats.Steps] {
			ex.lowPrio--
			ex.prio[acts[best].key] = ex.lowPrio // below all initial priorities
			ex.Stats.Preempts++
		}
		return acts[best]
	}
	return acts[0]
}

func (ex *Ex) perform(a action) {
	ex.Stats.Steps++
	for t, n := range ex.holds {
		if n <= 1 {
			delete(ex.holds, t)
		} else {
			ex.holds[t] = n - 1
		}
	}
	if debugSched != nil {
		debugSched(ex, a)
	}
	if a.task != nil {
		ex.cur = a.task
		ex.sc.Run(a.task)
		// targeted stall: if the task is now parked at a focus site, maybe hold it there
		cfg := &ex.Plan.Cfg
		if cfg.HoldPct > 0 && a.task.Parked() && a.task.Site > 0 && a.task.Site < len(ex.focus) && ex.focus[a.task.Site] {
			if ex.tape.Chance("sched.hold", cfg.HoldPct, 100) {
				hm := cfg.HoldMax
				if hm < 1 {
					hm = 8
				}
				ex.holds[a.task] = 1 + ex.draw("sched.holdlen", hm)
				ex.Stats.Holds++
				ex.Stats.Faults["sched.stall"]++
			}
		}
		return
	}
	c := a.conn
	pp := c.pending[0]
	rest := pp.data[pp.off:]
	cut := len(rest)
	if len(rest) > 1 && ex.Plan.Cfg.ChunkPct > 0 && ex.tape.Chance("net.chunk?", ex.Plan.Cfg.ChunkPct, 100) {
		cut = 1 + ex.draw("net.chunk", len(rest)-1)
		ex.Stats.Chunked++
		ex.Stats.Faults["net.segment"]++
	}
	last := cut == len(rest)
	inEv := &Ev{Kind: "in", Conn: c.Idx, Op: pp.op, hasOp: true, N: int64(cut), Last: last}
	if last {
		inEv.Pkt = pp.pkt
	}
	ex.H.add(inEv)
	ex.Stats.Deliveries++
	data := rest[:cut]
	pp.off += cut
	if last {
		c.pending = c.pending[1:]
	}
	if c.ws && !pp.rawWS {
		data = ex.wsWrap(c, data, last)
	}
	c.deliver(data)
	synctest.Wait()
}

// wsWrap turns a slice of the peer's MQTT byte stream into WebSocket binary message(s): possibly several
// packets in one message, fragmented messages, empty messages and interleaved pings (all from the tape).
func (ex *Ex) wsWrap(c *Conn, data []byte, last bool) []byte {
	payload := append([]byte(nil), data...)
	// several packets in one message
	for last && len(c.pending) > 0 && c.pending[0].off == 0 && ex.tape.Chance("ws.join", 30, 100) {
		nx := c.pending[0]
		c.pending = c.pending[1:]
		payload = append(payload, nx.data...)
		ex.H.add(&Ev{Kind: "in", Conn: c.Idx, Op: nx.op, hasOp: true, N: int64(len(nx.data)), Last: true, Pkt: nx.pkt})
		ex.Stats.Faults["ws.several_packets_in_message"]++
	}
	mask := [4]byte{byte(ex.draw("ws.mask", 256)), 0x5a, byte(len(payload)), 0xc3}
	var out []byte
	if ex.tape.Chance("ws.empty", 10, 100) {
		out = append(out, wsFrame(2, true, nil, mask)...)
		ex.Stats.Faults["ws.empty_message"]++
	}
	if len(payload) > 1 && ex.tape.Chance("ws.fragment", 30, 100) {
		k := 1 + ex.draw("ws.fragat", len(payload)-1)
		out = append(out, wsFrame(2, false, payload[:k], mask)...)
		if ex.tape.Chance("ws.ping", 40, 100) {
			out = append(out, wsFrame(9, true, []byte("p"), mask)...)
			ex.Stats.Faults["ws.ping_between_fragments"]++
		}
		out = append(out, wsFrame(0, true, payload[k:], mask)...)
		ex.Stats.Faults["ws.fragmented_message"]++
	} else {
		out = append(out, wsFrame(2, true, payload, mask)...)
	}
	return out
}

// pump parses new broker output on every connection and lets the simulated clients react.
func (ex *Ex) pump() {
	for _, c := range ex.Conns {
		c.mu.Lock()
		out := c.out
		parsed := c.parsed
		c.mu.Unlock()
		if c.ws {
			// strip the HTTP 101 response, then the WebSocket framing; MQTT packets are parsed from the
			// reassembled binary stream
			if !c.wsHdr {
				if i := strings.Index(string(out), "\r\n\r\n"); i >= 0 {
					c.wsHdr = true
					c.wsRaw = i + 4
					if !strings.HasPrefix(string(out), "HTTP/1.1 101") {
						c.wsErr = "upgrade refused: " + strings.SplitN(string(out), "\r\n", 2)[0]
					}
				}
			}
			if c.wsHdr && c.wsErr == "" {
				data, used, closed, ctrl, err := wsDeframe(out[c.wsRaw:])
				c.wsRaw += used
				c.wsCtrl += ctrl
				if closed {
					c.wsClosed = true
				}
				if err != nil {
					c.wsErr = err.Error()
					ex.H.add(&Ev{Kind: "malformed", Conn: c.Idx, Str: "websocket: " + err.Error()})
				}
				c.wsStream = append(c.wsStream, data...)
			}
			out = c.wsStream
		}
		for parsed < len(out) && !c.malformed {
			first, body, total, err := refcodec.Frame(out[parsed:])
			if err == refcodec.ErrIncomplete {
				break
			}
			if err != nil {
				c.malformed = true
				ex.H.add(&Ev{Kind: "malformed", Conn: c.Idx, Str: err.Error(), N: int64(parsed)})
				break
			}
			p, derr := refcodec.Decode(first, body, c.Ver)
			end := parsed + total
			seq := -1
			for _, m := range c.marks {
				if m.end >= end {
					seq = m.seq
					break
				}
			}
			if c.ws && len(c.marks) > 0 {
				seq = c.marks[len(c.marks)-1].seq // framing hides byte offsets: the latest write
			}
			if derr != nil {
				c.malformed = true
				ex.H.add(&Ev{Kind: "malformed", Conn: c.Idx, Str: fmt.Sprintf("%s: %v (bytes % x)", refcodec.TypeNames[first>>4], derr, clip(out[parsed:end], 48)), N: int64(parsed), N2: int64(seq)})
				break
			}
			parsed = end
			pr := &PktRec{P: p, Seq: seq, VT: ex.vt(), Index: len(c.Pkts), Size: total, Conn: c.Idx}
			c.Pkts = append(c.Pkts, pr)
			ex.H.add(&Ev{Kind: "pkt", Conn: c.Idx, Pkt: p, N: int64(total), N2: int64(seq)})
			ex.react(c, p)
		}
		c.mu.Lock()
		c.parsed = parsed
		c.mu.Unlock()
	}
}

func clip(b []byte, n int) []byte {
	if len(b) > n {
		return b[:n]
	}
	return b
}

func (ex *Ex) enqueue(c *Conn, p *refcodec.Packet, op int, enc refcodec.EncOpts, ver byte) {
	if ver == 0 {
		ver = c.Ver
	}
	c.pending = append(c.pending, &pendingPkt{pkt: p, data: refcodec.Encode(p, ver, enc), op: op})
	switch p.Type {
	case refcodec.PUBACK, refcodec.PUBREC, refcodec.PUBREL, refcodec.PUBCOMP:
		// the instant the simulated client hands an acknowledgement to its network stack
		ex.H.add(&Ev{Kind: "cack", Conn: c.Idx, Pkt: p, Op: op, hasOp: true})
	}
}

// react implements the client's acknowledgement policy.
func (ex *Ex) react(c *Conn, p *refcodec.Packet) {
	switch p.Type {
	case refcodec.PUBLISH:
		if p.Qos == 0 {
			return
		}
		switch c.AckMode {
		case 0:
			if p.Qos == 1 {
				ex.enqueue(c, &refcodec.Packet{Type: refcodec.PUBACK, PacketID: p.PacketID}, -1, refcodec.EncOpts{}, 0)
			} else {
				ex.enqueue(c, &refcodec.Packet{Type: refcodec.PUBREC, PacketID: p.PacketID}, -1, refcodec.EncOpts{}, 0)
			}
		case 2:
			if p.Qos == 1 {
				ex.enqueue(c, &refcodec.Packet{Type: refcodec.PUBACK, PacketID: p.PacketID}, -1, refcodec.EncOpts{}, 0)
			} else {
				ex.enqueue(c, &refcodec.Packet{Type: refcodec.PUBREC, PacketID: p.PacketID}, -1, refcodec.EncOpts{}, 0)
			}
		default:
			c.unacked = append(c.unacked, p.PacketID)
			c.unackedQ = append(c.unackedQ, p.Qos)
		}
	case refcodec.PUBREL:
		if c.AckMode == 0 {
			ex.enqueue(c, &refcodec.Packet{Type: refcodec.PUBCOMP, PacketID: p.PacketID}, -1, refcodec.EncOpts{}, 0)
		} else if c.AckMode == 1 {
			c.unacked = append(c.unacked, p.PacketID)
			c.unackedQ = append(c.unackedQ, 3) // 3 = PUBREL awaiting PUBCOMP
		}
	case refcodec.PUBREC:
		// answer to one of the client's own QoS 2 publishes
		if c.AckMode != 3 && p.ReasonCode < 0x80 {
			ex.enqueue(c, &refcodec.Packet{Type: refcodec.PUBREL, PacketID: p.PacketID}, -1, refcodec.EncOpts{}, 0)
		}
	case refcodec.DISCONNECT:
		if c.Redial && p.ReasonCode == 0x8B && ex.nl != nil {
			ex.redial(c)
		}
	}
}

// redial: an auto-reconnecting client opens a new connection with the same CONNECT the instant it reads the
// broker's "server shutting down": the dial lands inside the shutdown sweep.
func (ex *Ex) redial(old *Conn) {
	op := &ex.Plan.Ops[old.ConnectOp]
	if op.Pkt == nil {
		return
	}
	c := &Conn{ex: ex, Idx: len(ex.Conns), Slot: old.Slot + 100, notify: make(chan struct{}, 1), AckMode: old.AckMode, ConnectOp: old.ConnectOp, closeSeq: -1, Ver: old.Ver, CID: old.CID}
	c.openSeq = ex.H.add(&Ev{Kind: "open", Conn: c.Idx, Str: "redial", N: int64(c.Slot)})
	ex.Conns = append(ex.Conns, c)
	ex.enqueue(c, op.Pkt, -1, op.Enc, op.Pkt.ProtoVer)
	if !ex.nl.push(c) {
		c.peerClose("refused")
	}
}

// drive runs the system until nothing is enabled (quiescence), a deadlock, or the step budget.
func (ex *Ex) drive() bool {
	maxSteps := ex.Plan.Cfg.MaxSteps
	if maxSteps == 0 {
		maxSteps = 20000
	}
	for {
		synctest.Wait()
		ex.pump()
		if ex.aborted {
			return false
		}
		acts := ex.actions()
		if len(acts) == 0 {
			if bl := ex.sc.Blocked(); len(bl) > 0 {
				// tasks wait for locks that nobody will release: deadlock (unless a stalled writer holds them,
				// which is the harness's own doing and is resolved by unstalling)
				if ex.anyStalledWriter() {
					return true
				}
				onlyWG := true
				for _, t := range bl {
					if t.Why != "wg" {
						onlyWG = false
					}
				}
				if onlyWG {
					// somebody waits for handlers to finish (Server.Close): handlers blocked reading from an
					// idle connection end when their keepalive deadline passes, so let virtual time run
					// to the next connection deadline before calling it a hang.
					var next time.Time
					for _, c := range ex.Conns {
						c.mu.Lock()
						if !c.brokerClosed && !c.peerClosed && !c.deadline.IsZero() && (next.IsZero() || c.deadline.Before(next)) {
							next = c.deadline
						}
						c.mu.Unlock()
					}
					if !next.IsZero() {
						if d := time.Until(next); d > 0 {
							time.Sleep(d)
						}
						ex.Stats.Faults["time.advance"]++
						ex.H.add(&Ev{Kind: "tick", Conn: -1, Str: "await-keepalive"})
						continue
					}
				}
				di := &DeadlockInfo{OnlyWG: onlyWG}
				for _, t := range bl {
					di.Tasks = append(di.Tasks, fmt.Sprintf("%s waits(%s) at %s held-by[%s]", t.Name, t.Why, verifsim.SiteString(t.Site), ex.sc.Holder(t)))
				}
				ex.Deadlock = di
				ex.H.add(&Ev{Kind: "deadlock", Conn: -1, Str: strings.Join(di.Tasks, " ; ")})
				ex.aborted = true
				return false
			}
			return true
		}
		if ex.Stats.Steps >= maxSteps {
			ex.Stats.Truncated = true
			ex.aborted = true
			return false
		}
		ex.perform(ex.choose(acts))
		ex.collectRuntimeEvents()
		if len(ex.Panics) > 0 {
			ex.aborted = true
			return false
		}
	}
}

func (ex *Ex) anyStalledWriter() bool {
	for _, c := range ex.Conns {
		c.mu.Lock()
		w := c.writerWait
		c.mu.Unlock()
		if w {
			return true
		}
	}
	return false
}

func (ex *Ex) collectRuntimeEvents() {
	evs := ex.sc.Events
	if len(evs) == 0 {
		return
	}
	ex.sc.Events = nil
	for _, e := range evs {
		switch e.Kind {
		case "panic":
			ex.Panics = append(ex.Panics, e)
			ex.H.add(&Ev{Kind: "panic", Conn: -1, Str: e.Task, Str2: e.Text})
		case "reentrant-rlock":
			ex.Reentrant = append(ex.Reentrant, e)
			ex.H.add(&Ev{Kind: "reentrant", Conn: -1, Str: e.Task, Str2: e.Text})
		}
	}
}

// quiesce records a quiescent point with a state probe.
func (ex *Ex) quiesce(op int) {
	p := ex.probe()
	seq := ex.H.add(&Ev{Kind: "quiesce", Conn: -1, Op: op, hasOp: true, Probe: p})
	if op >= 0 && op < len(ex.opQuiesce) {
		ex.opQuiesce[op] = seq
	}
	ex.Stats.Quiesces++
}

func (ex *Ex) probe() *Probe {
	s := ex.Srv
	if s == nil {
		return nil
	}
	info := s.Info.Clone()
	p := &Probe{Info: *info, Connected: info.ClientsConnected, Subscriptions: info.Subscriptions, Retained: info.Retained, Inflight: info.Inflight,
		InflightDropped: info.InflightDropped, MessagesDropped: info.MessagesDropped, Clients: map[string]ClientProbe{}}
	p.ActClientSubs, p.ActSharedSubs, p.ActInlineSubs = s.Topics.VerifCountSubscriptions()
	p.ActRetained = s.Topics.Retained.Len()
	for t := range s.Topics.Retained.GetAll() {
		p.RetainedTopics = append(p.RetainedTopics, t)
	}
	sort.Strings(p.RetainedTopics)
	for id, cl := range s.Clients.GetAll() {
		if cl.Net.Inline {
			continue
		}
		cp := ClientProbe{Conn: connIdx(cl), Closed: cl.Closed(), Inflight: cl.State.Inflight.Len(), Outbound: cl.VerifOutboundLen(),
			Subs: cl.State.Subscriptions.Len(), TakenOver: cl.IsTakenOver()}
		cp.RecvQ, cp.SendQ, cp.MaxRecvQ, cp.MaxSendQ = cl.State.Inflight.VerifQuotas()
		for _, pk := range cl.State.Inflight.GetAll(false) {
			cp.InflightIDs = append(cp.InflightIDs, pk.PacketID)
		}
		sort.Slice(cp.InflightIDs, func(i, j int) bool { return cp.InflightIDs[i] < cp.InflightIDs[j] })
		p.ActInflight += cp.Inflight
		p.Clients[id] = cp
	}
	for id := range s.VerifWillDelayed().GetAll() {
		p.WillDelayed = append(p.WillDelayed, id)
	}
	sort.Strings(p.WillDelayed)
	for _, c := range ex.Conns {
		if !c.isClosed() {
			p.OpenConns++
		}
	}
	return p
}

// ---------------------------------------------------------------------------------------------------
// operations

func (ex *Ex) connOf(slot int) *Conn { return ex.slots[slot] }

func (ex *Ex) issue(i int, op *Op) {
	ex.opSeq[i] = ex.H.add(&Ev{Kind: "op", Conn: -1, Op: i, hasOp: true, Str: op.Kind, N: int64(op.Slot)})
	switch op.Kind {
	case "connect":
		c := &Conn{ex: ex, Idx: len(ex.Conns), Slot: op.Slot, notify: make(chan struct{}, 1), AckMode: op.AckMode, ConnectOp: i, closeSeq: -1, Redial: op.Note == "auto-reconnect"}
		c.Ver = 4
		if op.Pkt != nil {
			c.CID = op.Pkt.ClientID
			if op.Pkt.ProtoVer == 5 {
				c.Ver = 5
			} else if op.Pkt.ProtoVer == 3 {
				c.Ver = 3
			}
		}
		c.openSeq = ex.H.add(&Ev{Kind: "open", Conn: c.Idx, Op: i, hasOp: true, N: int64(op.Slot)})
		ex.Conns = append(ex.Conns, c)
		ex.slots[op.Slot] = c
		switch op.Fault { // a connection that is born faulty: the broker's N-th write on it (0 = the CONNACK) fails, or blocks
		case "failwrite":
			c.failWriteAt = 1 + op.N
		case "short":
			c.shortWriteAt = 1 + op.N
		case "stall":
			c.stall()
			ex.H.add(&Ev{Kind: "stall-on", Conn: c.Idx})
		}
		if op.Pkt != nil {
			ex.enqueue(c, op.Pkt, i, op.Enc, op.Pkt.ProtoVer)
		} else if op.Raw != nil {
			c.pending = append(c.pending, &pendingPkt{data: op.Raw, op: i})
		}
		if ex.nl != nil {
			if !ex.nl.push(c) {
				c.peerClose("refused")
			}
			synctest.Wait()
		} else if ex.lst != nil && !ex.lst.closed && ex.lst.establish != nil && ex.wsl != nil {
			// the real websocket listener: upgrade handler + wsConn over the simulated connection
			c.ws = true
			est := ex.lst.establish
			wsl := ex.wsl
			c.handler = ex.sc.Spawn(fmt.Sprintf("c%02d/h", c.Idx), func() {
				wsl.VerifHandle(est, discardLogger(), &hijackRW{conn: c}, wsUpgradeRequest())
			})
		} else if ex.lst != nil && !ex.lst.closed && ex.lst.establish != nil {
			est := ex.lst.establish
			c.handler = ex.sc.Spawn(fmt.Sprintf("c%02d/h", c.Idx), func() { _ = est("sim", c) })
		} else {
			c.peerClose("refused")
		}
	case "subscribe", "unsubscribe", "publish", "ping", "disconnect", "auth", "packet":
		c := ex.connOf(op.Slot)
		if c == nil || c.isClosed() || op.Pkt == nil {
			ex.H.add(&Ev{Kind: "skipped", Conn: -1, Op: i, hasOp: true})
			return
		}
		ex.enqueue(c, op.Pkt, i, op.Enc, op.Ver)
	case "raw":
		c := ex.connOf(op.Slot)
		if c == nil || c.isClosed() {
			ex.H.add(&Ev{Kind: "skipped", Conn: -1, Op: i, hasOp: true})
			return
		}
		c.pending = append(c.pending, &pendingPkt{data: op.Raw, op: i})
	case "ws_text": // a non-binary websocket message
		c := ex.connOf(op.Slot)
		if c == nil || c.isClosed() || !c.ws {
			ex.H.add(&Ev{Kind: "skipped", Conn: -1, Op: i, hasOp: true})
			return
		}
		c.pending = append(c.pending, &pendingPkt{data: wsFrame(1, true, []byte("not binary"), [4]byte{1, 2, 3, 4}), op: i, rawWS: true})
	case "ack": // manual acknowledgement of the N-th pending inbound message
		c := ex.connOf(op.Slot)
		if c == nil || c.isClosed() || len(c.unacked) == 0 {
			ex.H.add(&Ev{Kind: "skipped", Conn: -1, Op: i, hasOp: true})
			return
		}
		k := op.N % len(c.unacked)
		pid, q := c.unacked[k], c.unackedQ[k]
		c.unacked = append(c.unacked[:k], c.unacked[k+1:]...)
		c.unackedQ = append(c.unackedQ[:k], c.unackedQ[k+1:]...)
		t := byte(refcodec.PUBACK)
		if q == 2 {
			t = refcodec.PUBREC
		} else if q == 3 {
			t = refcodec.PUBCOMP
		}
		rc := byte(0)
		if op.Pkt != nil {
			rc = op.Pkt.ReasonCode
		}
		if t == refcodec.PUBCOMP && rc != 0 {
			rc = 0x92 // the only error reason code a PUBCOMP may carry
		}
		if c.Ver < 5 {
			rc = 0
		}
		ex.enqueue(c, &refcodec.Packet{Type: t, PacketID: pid, ReasonCode: rc}, i, op.Enc, 0)
	case "drop":
		if c := ex.connOf(op.Slot); c != nil && !c.isClosed() {
			ex.fault("client.crash", c.Idx)
			c.peerClose("peer-drop")
			synctest.Wait()
		}
	case "close": // orderly close by the client (after DISCONNECT)
		if c := ex.connOf(op.Slot); c != nil && !c.isClosed() {
			c.peerClose("peer-close")
			synctest.Wait()
		}
	case "stall":
		if c := ex.connOf(op.Slot); c != nil && !c.isClosed() {
			c.stall()
			ex.H.add(&Ev{Kind: "stall-on", Conn: c.Idx})
		}
	case "unstall":
		if c := ex.connOf(op.Slot); c != nil {
			c.unstall()
			ex.H.add(&Ev{Kind: "stall-off", Conn: c.Idx})
			synctest.Wait()
		}
	case "failwrite":
		if c := ex.connOf(op.Slot); c != nil && !c.isClosed() {
			c.mu.Lock()
			if op.Fault == "short" {
				c.shortWriteAt = 1 + op.N
			} else {
				c.failWriteAt = 1 + op.N
			}
			c.mu.Unlock()
		}
	case "advance":
		ex.advance(op.Ms)
	case "clockstep":
		ex.sc.WallOffset += time.Duration(op.Ms) * time.Millisecond
		ex.fault("time.step", -1)
		ex.H.add(&Ev{Kind: "tick", Conn: -1, N: int64(op.Ms), Str: "step"})
	case "inline_pub":
		if ex.Plan.Cfg.Inline && op.Pkt != nil {
			p := op.Pkt
			t := ex.sc.Spawn(fmt.Sprintf("api%03d", i), func() {
				err := ex.Srv.Publish(p.Topic, []byte(p.Payload), p.Retain, p.Qos)
				if err != nil {
					ex.H.add(&Ev{Kind: "api", Conn: -1, Op: i, hasOp: true, Str: "publish-error", Str2: err.Error()})
				}
			})
			ex.apiTasks = append(ex.apiTasks, t)
		}
	case "inline_sub":
		if ex.Plan.Cfg.Inline {
			filter, id := op.Str, op.N
			t := ex.sc.Spawn(fmt.Sprintf("api%03d", i), func() {
				err := ex.Srv.Subscribe(filter, id, func(cl *mqtt.Client, sub packetsSubscription, pk packetsPacket) {
					seq := ex.H.add(&Ev{Kind: "inline", Conn: -1, N: int64(sub.Identifier), Str: pk.TopicName, Str2: string(pk.Payload), N2: int64(pk.FixedHeader.Qos), Last: pk.FixedHeader.Retain})
					ex.inlineGot = append(ex.inlineGot, InlineMsg{Seq: seq, SubID: sub.Identifier, Filter: sub.Filter, Topic: pk.TopicName, Payload: string(pk.Payload), Retain: pk.FixedHeader.Retain, Qos: pk.FixedHeader.Qos})
				})
				if err != nil {
					ex.H.add(&Ev{Kind: "api", Conn: -1, Op: i, hasOp: true, Str: "subscribe-error", Str2: err.Error()})
				}
			})
			ex.apiTasks = append(ex.apiTasks, t)
		}
	case "inline_unsub":
		if ex.Plan.Cfg.Inline {
			filter, id := op.Str, op.N
			t := ex.sc.Spawn(fmt.Sprintf("api%03d", i), func() {
				err := ex.Srv.Unsubscribe(filter, id)
				if err != nil {
					ex.H.add(&Ev{Kind: "api", Conn: -1, Op: i, hasOp: true, Str: "unsubscribe-error", Str2: err.Error()})
				}
			})
			ex.apiTasks = append(ex.apiTasks, t)
		}
	case "server_close":
		ex.startServerClose(i)
	case "restart":
		if ex.RestartFn != nil {
			ex.RestartFn(ex)
		}
	}
}

func (ex *Ex) startServerClose(op int) {
	if ex.serverClosed {
		return
	}
	ex.serverClosed = true
	ex.closeReturnedSeq = -1
	ex.nClose++
	name := "close"
	if ex.nClose > 1 {
		name = fmt.Sprintf("close%d", ex.nClose)
	}
	ex.closeTask = ex.sc.Spawn(name, func() {
		_ = ex.Srv.Close()
		ex.closeReturnedSeq = ex.H.add(&Ev{Kind: "api", Conn: -1, Op: op, hasOp: true, Str: "close-returned"})
	})
}

// advance moves virtual time forward in steps that stop at every second boundary (tickers) and at every
// connection deadline, running the system to quiescence after each step.
func (ex *Ex) advance(ms int) {
	target := time.Now().Add(time.Duration(ms) * time.Millisecond)
	for !ex.aborted {
		now := time.Now()
		if !now.Before(target) {
			break
		}
		next := target
		// next tick of a simulated ticker
		if nb := ex.sc.NextTick(); !nb.IsZero() && nb.Before(next) {
			next = nb
		}
		for _, c := range ex.Conns {
			c.mu.Lock()
			dl := c.deadline
			closed := c.brokerClosed || c.peerClosed
			c.mu.Unlock()
			if !closed && !dl.IsZero() && dl.After(now) && dl.Before(next) {
				next = dl
			}
		}
		if next.After(now) {
			time.Sleep(next.Sub(now))
		}
		ex.Stats.Faults["time.advance"]++
		ex.H.add(&Ev{Kind: "tick", Conn: -1, N: int64(next.Sub(now) / time.Millisecond)})
		synctest.Wait()
		// deliver the ticks that are due, one at a time, in a simulator-chosen order
		due := ex.sc.DueTickers(time.Now())
		for len(due) > 0 {
			k := 0
			if ex.Plan.Cfg.SelOrder && len(due) > 1 {
				k = ex.draw("order.ticker", len(due))
			}
			due[k].Fire(time.Now())
			due = append(due[:k], due[k+1:]...)
			synctest.Wait()
		}
		if !ex.drive() {
			return
		}
	}
}

// ---------------------------------------------------------------------------------------------------

// Result is what a run leaves for the oracles.
type Result struct {
	Plan    *Plan
	Ex      *Ex
	H       *History
	Digest  string
	Stats   Stats
	Tape    *Tape
	BubbleLeak bool
}

// RunPlan executes the plan inside a fresh synctest bubble.
func RunPlan(t *testing.T, plan *Plan, tape *Tape) (res *Result) {
	ex := &Ex{t: t, Plan: plan, tape: tape, slots: map[int]*Conn{}, prio: map[string]int{}, holds: map[*verifsim.Task]int{},
		pctChange: map[int]bool{}, faultSeen: map[string]bool{}}
	ex.Stats.Faults = map[string]int{}
	ex.opSeq = make([]int, len(plan.Ops))
	ex.opQuiesce = make([]int, len(plan.Ops))
	for i := range ex.opQuiesce {
		ex.opQuiesce[i] = -1
	}
	if prof := profiles[plan.Profile]; prof != nil && prof.Setup != nil {
		ex.extra = prof.Setup
	}
	res = &Result{Plan: plan, Ex: ex, Tape: tape}
	func() {
		defer func() {
			if r := recover(); r != nil {
				msg := fmt.Sprint(r)
				if strings.Contains(msg, "deadlock: main bubble goroutine has exited") || strings.Contains(msg, "blocked goroutines remain") {
					res.BubbleLeak = true
					return
				}
				panic(r)
			}
		}()
		synctest.Test(t, func(t *testing.T) {
			ex.run()
		})
	}()
	verifsim.Deactivate()
	res.H = ex.H
	res.Digest = ex.H.Digest()
	res.Stats = ex.Stats
	return res
}

func (ex *Ex) run() {
	ex.sc = verifsim.Activate()
	cfg := &ex.Plan.Cfg
	ex.sc.Draw = func(label string, n int) int {
		if strings.HasPrefix(label, "order.map") {
			if !cfg.MapOrder {
				return 0
			}
			ex.Stats.Faults["order.map"]++
		} else if strings.HasPrefix(label, "order.select") {
			if !cfg.SelOrder {
				return 0
			}
			ex.Stats.Faults["order.select"]++
		}
		return ex.draw(label, n)
	}
	ex.H = newHistory()
	ex.start = time.Now()
	ex.computeArming()
	if cfg.Strategy == 3 {
		d := cfg.PCTDepth
		if d < 1 {
			d = 1
		}
		for i := 0; i < d; i++ {
			ex.pctChange[ex.draw("sched.pct.change", 600)] = true
		}
	}
	ex.buildServer()
	ex.sc.Spawn("serve", func() { _ = ex.Srv.Serve() })
	ok := ex.drive()
	if ok {
		ex.quiesce(-1)
		for i := range ex.Plan.Ops {
			op := &ex.Plan.Ops[i]
			ex.issue(i, op)
			if ex.aborted {
				break
			}
			if op.Concurrent && i+1 < len(ex.Plan.Ops) {
				continue
			}
			if !ex.drive() {
				break
			}
			ex.quiesce(i)
		}
	}
	ex.finish()
}

// finish tears the run down: peers go away, the server is closed under the scheduler, and whatever is left
// is reported.
func (ex *Ex) finish() {
	ex.Stats.SimMs = ex.vt()
	ex.collectRuntimeEvents()
	ex.SiteHits = ex.sc.SiteHits
	ex.SitePark = ex.sc.SitePark
	if ex.Deadlock != nil || len(ex.Panics) > 0 {
		// cannot be torn down safely: leak the parked goroutines (the bubble-exit panic is recovered)
		ex.sc.Abandon()
		return
	}
	ex.H.add(&Ev{Kind: "teardown", Conn: -1})
	for _, c := range ex.Conns {
		c.unstall()
		if !c.isClosed() {
			c.peerClose("teardown")
		}
	}
	// from here on: default choices only (no tape draws), generous step budget
	saved := ex.Plan.Cfg
	ex.Plan.Cfg.Strategy = 0
	ex.Plan.Cfg.HoldPct = 0
	ex.Plan.Cfg.ChunkPct = 0
	ex.Plan.Cfg.MaxSteps = ex.Stats.Steps + 200000
	ex.aborted = false
	ex.drive()
	if !ex.serverClosed && ex.Deadlock == nil && len(ex.Panics) == 0 {
		ex.startServerClose(-1)
		ex.drive()
	}
	ex.Plan.Cfg = saved
	for _, t := range ex.sc.Live() {
		ex.LiveAtEnd = append(ex.LiveAtEnd, t.Name+"@"+verifsim.SiteString(t.Site))
	}
	if ex.Deadlock != nil || len(ex.Panics) > 0 || len(ex.LiveAtEnd) > 0 {
		ex.sc.Abandon()
		return
	}
}

var _ = math.MaxInt32

type packetsSubscription = packets.Subscription
type packetsPacket = packets.Packet
