package harness

import (
	"fmt"
	"sort"
	"strings"
)

// Violation is one oracle verdict. (Property, Class, Features) is its fingerprint (DESIGN.md §6).
type Violation struct {
	Property string            `json:"property"`
	Class    string            `json:"class"`
	Features map[string]string `json:"features"`
	Detail   string            `json:"detail"`
	Seq      int               `json:"seq"`
}

func (v Violation) Fingerprint() string {
	var ks []string
	for k := range v.Features {
		ks = append(ks, k)
	}
	sort.Strings(ks)
	var sb strings.Builder
	fmt.Fprintf(&sb, "%s/%s{", v.Property, v.Class)
	for i, k := range ks {
		if i > 0 {
			sb.WriteString(",")
		}
		fmt.Fprintf(&sb, "%s=%s", k, v.Features[k])
	}
	sb.WriteString("}")
	return sb.String()
}

func viol(prop, class, detail string, seq int, kv ...string) Violation {
	f := map[string]string{}
	for i := 0; i+1 < len(kv); i += 2 {
		f[kv[i]] = kv[i+1]
	}
	return Violation{Property: prop, Class: class, Features: f, Detail: detail, Seq: seq}
}

// Profile binds a property to a workload generator and its oracles.
type Profile struct {
	Name   string
	Gen    func(t *Tape) *Plan
	Setup  func(ex *Ex)
	// Check returns the violations of this profile's property found in the run.
	Check func(r *Result) []Violation
	// Relevant reports whether the run actually exercised the property (relevance probe) and the names of
	// reach probes that fired.
	Relevant func(r *Result) (bool, []string)
	// Runner replaces the engine-A executor for profiles that use another engine.
	Runner func(p *Profile, seed uint64, replay *ReplayFile) *RunOutcome
	Engine string
}

var profiles = map[string]*Profile{}

func register(p *Profile) { profiles[p.Name] = p }

// universal oracles evaluated in every engine-A run, whatever the profile (their violations are attributed
// to their own property and reported by the profile of that property; other profiles count them as
// "other-property observations" in the evidence).
func universalChecks(r *Result) []Violation {
	var out []Violation
	out = append(out, checkC23(r)...)
	out = append(out, checkC32(r)...)
	out = append(out, checkPanics(r)...)
	return out
}
