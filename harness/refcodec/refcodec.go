// Package refcodec is an MQTT 3.1 / 3.1.1 / 5.0 codec written from the OASIS specifications. It shares no
// code with /repo/packets: the simulated clients use it in both directions, so every byte the broker writes
// in every simulated run is parsed by a strict, independent decoder, and every byte the broker reads was
// produced by an independent encoder (DESIGN.md §5.1).
package refcodec

import (
	"errors"
	"fmt"
	"unicode/utf8"
)

const (
	CONNECT     = 1
	CONNACK     = 2
	PUBLISH     = 3
	PUBACK      = 4
	PUBREC      = 5
	PUBREL      = 6
	PUBCOMP     = 7
	SUBSCRIBE   = 8
	SUBACK      = 9
	UNSUBSCRIBE = 10
	UNSUBACK    = 11
	PINGREQ     = 12
	PINGRESP    = 13
	DISCONNECT  = 14
	AUTH        = 15
	willProps   = 99
)

var TypeNames = map[byte]string{1: "CONNECT", 2: "CONNACK", 3: "PUBLISH", 4: "PUBACK", 5: "PUBREC", 6: "PUBREL", 7: "PUBCOMP",
	8: "SUBSCRIBE", 9: "SUBACK", 10: "UNSUBSCRIBE", 11: "UNSUBACK", 12: "PINGREQ", 13: "PINGRESP", 14: "DISCONNECT", 15: "AUTH"}

// property identifiers
const (
	PPayloadFormat     = 1
	PMessageExpiry     = 2
	PContentType       = 3
	PResponseTopic     = 8
	PCorrelationData   = 9
	PSubscriptionID    = 11
	PSessionExpiry     = 17
	PAssignedClientID  = 18
	PServerKeepAlive   = 19
	PAuthMethod        = 21
	PAuthData          = 22
	PRequestProblem    = 23
	PWillDelay         = 24
	PRequestResponse   = 25
	PResponseInfo      = 26
	PServerReference   = 28
	PReasonString      = 31
	PReceiveMaximum    = 33
	PTopicAliasMaximum = 34
	PTopicAlias        = 35
	PMaximumQoS        = 36
	PRetainAvailable   = 37
	PUserProperty      = 38
	PMaximumPacketSize = 39
	PWildcardSubAvail  = 40
	PSubIDAvail        = 41
	PSharedSubAvail    = 42
)

type ptype int

const (
	tByte ptype = iota
	tU16
	tU32
	tVarint
	tString
	tBinary
	tPair
)

type propSpec struct {
	t     ptype
	allow []byte // packet types
	multi bool
}

var propTable = map[byte]propSpec{
	PPayloadFormat:     {tByte, []byte{PUBLISH, willProps}, false},
	PMessageExpiry:     {tU32, []byte{PUBLISH, willProps}, false},
	PContentType:       {tString, []byte{PUBLISH, willProps}, false},
	PResponseTopic:     {tString, []byte{PUBLISH, willProps}, false},
	PCorrelationData:   {tBinary, []byte{PUBLISH, willProps}, false},
	PSubscriptionID:    {tVarint, []byte{PUBLISH, SUBSCRIBE}, true},
	PSessionExpiry:     {tU32, []byte{CONNECT, CONNACK, DISCONNECT}, false},
	PAssignedClientID:  {tString, []byte{CONNACK}, false},
	PServerKeepAlive:   {tU16, []byte{CONNACK}, false},
	PAuthMethod:        {tString, []byte{CONNECT, CONNACK, AUTH}, false},
	PAuthData:          {tBinary, []byte{CONNECT, CONNACK, AUTH}, false},
	PRequestProblem:    {tByte, []byte{CONNECT}, false},
	PWillDelay:         {tU32, []byte{willProps}, false},
	PRequestResponse:   {tByte, []byte{CONNECT}, false},
	PResponseInfo:      {tString, []byte{CONNACK}, false},
	PServerReference:   {tString, []byte{CONNACK, DISCONNECT}, false},
	PReasonString:      {tString, []byte{CONNACK, PUBACK, PUBREC, PUBREL, PUBCOMP, SUBACK, UNSUBACK, DISCONNECT, AUTH}, false},
	PReceiveMaximum:    {tU16, []byte{CONNECT, CONNACK}, false},
	PTopicAliasMaximum: {tU16, []byte{CONNECT, CONNACK}, false},
	PTopicAlias:        {tU16, []byte{PUBLISH}, false},
	PMaximumQoS:        {tByte, []byte{CONNACK}, false},
	PRetainAvailable:   {tByte, []byte{CONNACK}, false},
	PUserProperty:      {tPair, []byte{CONNECT, CONNACK, PUBLISH, willProps, PUBACK, PUBREC, PUBREL, PUBCOMP, SUBSCRIBE, SUBACK, UNSUBSCRIBE, UNSUBACK, DISCONNECT, AUTH}, true},
	PMaximumPacketSize: {tU32, []byte{CONNECT, CONNACK}, false},
	PWildcardSubAvail:  {tByte, []byte{CONNACK}, false},
	PSubIDAvail:        {tByte, []byte{CONNACK}, false},
	PSharedSubAvail:    {tByte, []byte{CONNACK}, false},
}

// Prop is one property occurrence; order is preserved.
type Prop struct {
	ID  byte   `json:"id"`
	Int uint32 `json:"int,omitempty"`
	Str string `json:"str,omitempty"` // strings, binary data (as string), user property value
	Key string `json:"key,omitempty"` // user property key
}

type Props []Prop

func (ps Props) Get(id byte) (Prop, bool) {
	for _, p := range ps {
		if p.ID == id {
			return p, true
		}
	}
	return Prop{}, false
}

func (ps Props) All(id byte) []Prop {
	var out []Prop
	for _, p := range ps {
		if p.ID == id {
			out = append(out, p)
		}
	}
	return out
}

func (ps Props) Has(id byte) bool { _, ok := ps.Get(id); return ok }

type Filter struct {
	Filter string `json:"filter"`
	Opts   byte   `json:"opts"` // qos | nl<<2 | rap<<3 | rh<<4 (v5); qos only (v3)
}

func (f Filter) Qos() byte { return f.Opts & 3 }
func (f Filter) NoLocal() bool { return f.Opts&4 != 0 }
func (f Filter) RAP() bool { return f.Opts&8 != 0 }
func (f Filter) RH() byte { return (f.Opts >> 4) & 3 }

type Will struct {
	Topic   string `json:"topic"`
	Payload string `json:"payload"`
	Qos     byte   `json:"qos"`
	Retain  bool   `json:"retain"`
	Props   Props  `json:"props,omitempty"`
}

// Packet is a decoded or to-be-encoded MQTT control packet.
type Packet struct {
	Type   byte `json:"type"`
	Dup    bool `json:"dup,omitempty"`
	Qos    byte `json:"qos,omitempty"`
	Retain bool `json:"retain,omitempty"`
	// CONNECT
	ProtoName   string `json:"protoName,omitempty"`
	ProtoVer    byte   `json:"protoVer,omitempty"`
	CleanStart  bool   `json:"clean,omitempty"`
	KeepAlive   uint16 `json:"keepalive,omitempty"`
	ClientID    string `json:"clientId,omitempty"`
	Will        *Will  `json:"will,omitempty"`
	HasUsername bool   `json:"hasUser,omitempty"`
	Username    string `json:"user,omitempty"`
	HasPassword bool   `json:"hasPass,omitempty"`
	Password    string `json:"pass,omitempty"`
	ConnReserved bool  `json:"connReserved,omitempty"`
	// CONNACK
	SessionPresent bool `json:"sp,omitempty"`
	// acks, CONNACK, DISCONNECT, AUTH
	ReasonCode byte `json:"rc,omitempty"`
	// PUBLISH
	Topic    string `json:"topic,omitempty"`
	PacketID uint16 `json:"pid,omitempty"`
	Payload  string `json:"payload,omitempty"`
	// SUBSCRIBE / UNSUBSCRIBE
	Filters []Filter `json:"filters,omitempty"`
	// SUBACK / UNSUBACK
	ReasonCodes []byte `json:"rcs,omitempty"`
	Props       Props  `json:"props,omitempty"`
}

func (p *Packet) String() string {
	s := TypeNames[p.Type]
	switch p.Type {
	case CONNECT:
		s += fmt.Sprintf("(v%d id=%q clean=%v ka=%d will=%v)", p.ProtoVer, p.ClientID, p.CleanStart, p.KeepAlive, p.Will != nil)
	case CONNACK:
		s += fmt.Sprintf("(sp=%v rc=0x%02x)", p.SessionPresent, p.ReasonCode)
	case PUBLISH:
		s += fmt.Sprintf("(t=%q q=%d r=%v d=%v pid=%d %q)", p.Topic, p.Qos, p.Retain, p.Dup, p.PacketID, trunc(p.Payload))
	case PUBACK, PUBREC, PUBREL, PUBCOMP:
		s += fmt.Sprintf("(pid=%d rc=0x%02x)", p.PacketID, p.ReasonCode)
	case SUBSCRIBE, UNSUBSCRIBE:
		s += fmt.Sprintf("(pid=%d %v)", p.PacketID, p.Filters)
	case SUBACK, UNSUBACK:
		s += fmt.Sprintf("(pid=%d %x)", p.PacketID, p.ReasonCodes)
	case DISCONNECT, AUTH:
		s += fmt.Sprintf("(rc=0x%02x)", p.ReasonCode)
	}
	if len(p.Props) > 0 {
		s += fmt.Sprintf("%v", p.Props)
	}
	return s
}

func trunc(s string) string {
	if len(s) > 24 {
		return s[:24] + "…"
	}
	return s
}

// ------------------------------------------------------------------------------------------------
// encoding

// EncOpts selects among the encodings the specification permits for one packet value.
type EncOpts struct {
	// Short: for PUBACK/PUBREC/PUBREL/PUBCOMP/DISCONNECT/AUTH (v5) with reason 0 / no properties:
	// 0 = shortest permitted form, 1 = reason code present but property length omitted, 2 = full form.
	Short int
	// PropPerm: if non-nil, property i is written at position PropPerm[i] (any order is permitted).
	PropPerm []int
}

func putVarint(b []byte, v uint32) []byte {
	for {
		d := byte(v % 128)
		v /= 128
		if v > 0 {
			d |= 0x80
		}
		b = append(b, d)
		if v == 0 {
			return b
		}
	}
}

func putU16(b []byte, v uint16) []byte { return append(b, byte(v>>8), byte(v)) }
func putU32(b []byte, v uint32) []byte { return append(b, byte(v>>24), byte(v>>16), byte(v>>8), byte(v)) }
func putStr(b []byte, s string) []byte { b = putU16(b, uint16(len(s))); return append(b, s...) }

func encProps(ps Props, perm []int) []byte {
	order := make([]int, len(ps))
	for i := range order {
		order[i] = i
	}
	if len(perm) == len(ps) {
		for i, p := range perm {
			if p >= 0 && p < len(ps) {
				order[p] = i
			}
		}
		seen := map[int]bool{}
		ok := true
		for _, o := range order {
			if seen[o] {
				ok = false
			}
			seen[o] = true
		}
		if !ok {
			for i := range order {
				order[i] = i
			}
		}
	}
	var body []byte
	for _, i := range order {
		p := ps[i]
		spec, known := propTable[p.ID]
		body = append(body, p.ID)
		if !known {
			body = append(body, byte(p.Int))
			continue
		}
		switch spec.t {
		case tByte:
			body = append(body, byte(p.Int))
		case tU16:
			body = putU16(body, uint16(p.Int))
		case tU32:
			body = putU32(body, p.Int)
		case tVarint:
			body = putVarint(body, p.Int)
		case tString, tBinary:
			body = putStr(body, p.Str)
		case tPair:
			body = putStr(body, p.Key)
			body = putStr(body, p.Str)
		}
	}
	out := putVarint(nil, uint32(len(body)))
	return append(out, body...)
}

// Encode produces the bytes of p for protocol version ver (3, 4 or 5).
func Encode(p *Packet, ver byte, o EncOpts) []byte {
	var flags byte
	var body []byte
	v5 := ver == 5
	switch p.Type {
	case CONNECT:
		name := p.ProtoName
		if name == "" {
			name = "MQTT"
			if p.ProtoVer == 3 {
				name = "MQIsdp"
			}
		}
		body = putStr(body, name)
		body = append(body, p.ProtoVer)
		var cf byte
		if p.ConnReserved {
			cf |= 1
		}
		if p.CleanStart {
			cf |= 2
		}
		if p.Will != nil {
			cf |= 4 | p.Will.Qos<<3
			if p.Will.Retain {
				cf |= 32
			}
		}
		if p.HasPassword {
			cf |= 64
		}
		if p.HasUsername {
			cf |= 128
		}
		body = append(body, cf)
		body = putU16(body, p.KeepAlive)
		if p.ProtoVer == 5 {
			body = append(body, encProps(p.Props, o.PropPerm)...)
		}
		body = putStr(body, p.ClientID)
		if p.Will != nil {
			if p.ProtoVer == 5 {
				body = append(body, encProps(p.Will.Props, nil)...)
			}
			body = putStr(body, p.Will.Topic)
			body = putStr(body, p.Will.Payload)
		}
		if p.HasUsername {
			body = putStr(body, p.Username)
		}
		if p.HasPassword {
			body = putStr(body, p.Password)
		}
	case CONNACK:
		sp := byte(0)
		if p.SessionPresent {
			sp = 1
		}
		body = append(body, sp, p.ReasonCode)
		if v5 {
			body = append(body, encProps(p.Props, o.PropPerm)...)
		}
	case PUBLISH:
		flags = p.Qos << 1
		if p.Dup {
			flags |= 8
		}
		if p.Retain {
			flags |= 1
		}
		body = putStr(body, p.Topic)
		if p.Qos > 0 {
			body = putU16(body, p.PacketID)
		}
		if v5 {
			body = append(body, encProps(p.Props, o.PropPerm)...)
		}
		body = append(body, p.Payload...)
	case PUBACK, PUBREC, PUBREL, PUBCOMP:
		if p.Type == PUBREL {
			flags = 2
		}
		body = putU16(body, p.PacketID)
		if v5 {
			short := o.Short
			if len(p.Props) > 0 {
				short = 2
			} else if p.ReasonCode != 0 && short == 0 {
				short = 1
			}
			if short >= 1 {
				body = append(body, p.ReasonCode)
			}
			if short >= 2 {
				body = append(body, encProps(p.Props, o.PropPerm)...)
			}
		}
	case SUBSCRIBE:
		flags = 2
		body = putU16(body, p.PacketID)
		if v5 {
			body = append(body, encProps(p.Props, o.PropPerm)...)
		}
		for _, f := range p.Filters {
			body = putStr(body, f.Filter)
			body = append(body, f.Opts)
		}
	case SUBACK, UNSUBACK:
		body = putU16(body, p.PacketID)
		if v5 {
			body = append(body, encProps(p.Props, o.PropPerm)...)
		}
		if p.Type == SUBACK || v5 {
			body = append(body, p.ReasonCodes...)
		}
	case UNSUBSCRIBE:
		flags = 2
		body = putU16(body, p.PacketID)
		if v5 {
			body = append(body, encProps(p.Props, o.PropPerm)...)
		}
		for _, f := range p.Filters {
			body = putStr(body, f.Filter)
		}
	case PINGREQ, PINGRESP:
	case DISCONNECT, AUTH:
		if v5 {
			short := o.Short
			if len(p.Props) > 0 {
				short = 2
			} else if p.ReasonCode != 0 && short == 0 {
				short = 1
			}
			if short >= 1 {
				body = append(body, p.ReasonCode)
			}
			if short >= 2 {
				body = append(body, encProps(p.Props, o.PropPerm)...)
			}
		}
	}
	out := []byte{p.Type<<4 | flags}
	out = putVarint(out, uint32(len(body)))
	return append(out, body...)
}

// ------------------------------------------------------------------------------------------------
// strict decoding

var ErrIncomplete = errors.New("incomplete packet")

type rd struct {
	b   []byte
	pos int
}

func (r *rd) left() int { return len(r.b) - r.pos }
func (r *rd) byte_() (byte, error) {
	if r.left() < 1 {
		return 0, errors.New("truncated: byte")
	}
	v := r.b[r.pos]
	r.pos++
	return v, nil
}
func (r *rd) u16() (uint16, error) {
	if r.left() < 2 {
		return 0, errors.New("truncated: u16")
	}
	v := uint16(r.b[r.pos])<<8 | uint16(r.b[r.pos+1])
	r.pos += 2
	return v, nil
}
func (r *rd) u32() (uint32, error) {
	if r.left() < 4 {
		return 0, errors.New("truncated: u32")
	}
	v := uint32(r.b[r.pos])<<24 | uint32(r.b[r.pos+1])<<16 | uint32(r.b[r.pos+2])<<8 | uint32(r.b[r.pos+3])
	r.pos += 4
	return v, nil
}
func (r *rd) varint() (uint32, error) {
	var v uint32
	var mult uint32 = 1
	for i := 0; i < 4; i++ {
		d, err := r.byte_()
		if err != nil {
			return 0, errors.New("truncated: varint")
		}
		v += uint32(d&127) * mult
		if d&128 == 0 {
			if i > 0 && d == 0 {
				return 0, errors.New("non-minimal variable byte integer")
			}
			return v, nil
		}
		mult *= 128
	}
	return 0, errors.New("variable byte integer longer than 4 bytes")
}
func (r *rd) bin() (string, error) {
	n, err := r.u16()
	if err != nil {
		return "", err
	}
	if r.left() < int(n) {
		return "", errors.New("truncated: string/binary body")
	}
	s := string(r.b[r.pos : r.pos+int(n)])
	r.pos += int(n)
	return s, nil
}
func (r *rd) str() (string, error) {
	s, err := r.bin()
	if err != nil {
		return "", err
	}
	if !ValidUTF8(s) {
		return "", errors.New("string is not valid MQTT UTF-8")
	}
	return s, nil
}

// ValidUTF8 implements MQTT 1.5.4: well-formed UTF-8, no U+0000, no surrogates (utf8.ValidString rejects them).
func ValidUTF8(s string) bool {
	if !utf8.ValidString(s) {
		return false
	}
	for _, c := range s {
		if c == 0 {
			return false
		}
	}
	return true
}

func allowed(id byte, ptype byte) bool {
	spec, ok := propTable[id]
	if !ok {
		return false
	}
	for _, a := range spec.allow {
		if a == ptype {
			return true
		}
	}
	return false
}

func decProps(r *rd, ptype byte) (Props, error) {
	n, err := r.varint()
	if err != nil {
		return nil, fmt.Errorf("property length: %w", err)
	}
	if r.left() < int(n) {
		return nil, errors.New("property length exceeds packet")
	}
	sub := &rd{b: r.b[r.pos : r.pos+int(n)]}
	r.pos += int(n)
	var ps Props
	seen := map[byte]bool{}
	for sub.left() > 0 {
		id, _ := sub.byte_()
		spec, ok := propTable[id]
		if !ok {
			return nil, fmt.Errorf("unknown property id %d", id)
		}
		if !allowed(id, ptype) {
			return nil, fmt.Errorf("property %d not allowed in packet type %d", id, ptype)
		}
		if seen[id] && !(spec.multi && (id == PUserProperty || ptype == PUBLISH)) {
			return nil, fmt.Errorf("property %d repeated", id)
		}
		seen[id] = true
		p := Prop{ID: id}
		switch spec.t {
		case tByte:
			b, err := sub.byte_()
			if err != nil {
				return nil, err
			}
			p.Int = uint32(b)
		case tU16:
			v, err := sub.u16()
			if err != nil {
				return nil, err
			}
			p.Int = uint32(v)
		case tU32:
			v, err := sub.u32()
			if err != nil {
				return nil, err
			}
			p.Int = v
		case tVarint:
			v, err := sub.varint()
			if err != nil {
				return nil, err
			}
			p.Int = v
		case tString:
			s, err := sub.str()
			if err != nil {
				return nil, fmt.Errorf("property %d: %w", id, err)
			}
			p.Str = s
		case tBinary:
			s, err := sub.bin()
			if err != nil {
				return nil, err
			}
			p.Str = s
		case tPair:
			k, err := sub.str()
			if err != nil {
				return nil, err
			}
			v, err := sub.str()
			if err != nil {
				return nil, err
			}
			p.Key, p.Str = k, v
		}
		// value constraints
		switch id {
		case PPayloadFormat, PRequestProblem, PRequestResponse, PMaximumQoS, PRetainAvailable, PWildcardSubAvail, PSubIDAvail, PSharedSubAvail:
			if p.Int > 1 {
				return nil, fmt.Errorf("property %d has value %d (must be 0 or 1)", id, p.Int)
			}
		case PReceiveMaximum, PTopicAlias, PMaximumPacketSize:
			if p.Int == 0 {
				return nil, fmt.Errorf("property %d must not be 0", id)
			}
		case PSubscriptionID:
			if p.Int == 0 {
				return nil, errors.New("subscription identifier 0")
			}
		}
		ps = append(ps, p)
	}
	return ps, nil
}

// Frame splits one complete packet off the front of b. Returns ErrIncomplete if more bytes are needed, and
// a hard error if the fixed header itself is malformed.
func Frame(b []byte) (first byte, body []byte, total int, err error) {
	if len(b) < 2 {
		return 0, nil, 0, ErrIncomplete
	}
	first = b[0]
	var v, mult uint32 = 0, 1
	i := 1
	for {
		if i >= len(b) {
			return 0, nil, 0, ErrIncomplete
		}
		d := b[i]
		v += uint32(d&127) * mult
		i++
		if d&128 == 0 {
			if i-1 > 1 && d == 0 {
				return 0, nil, 0, errors.New("remaining length not minimally encoded")
			}
			break
		}
		mult *= 128
		if i-1 >= 4 {
			return 0, nil, 0, errors.New("remaining length longer than 4 bytes")
		}
	}
	if len(b) < i+int(v) {
		return 0, nil, 0, ErrIncomplete
	}
	return first, b[i : i+int(v)], i + int(v), nil
}

// Decode strictly decodes one packet body for protocol version ver.
func Decode(first byte, body []byte, ver byte) (*Packet, error) {
	p := &Packet{Type: first >> 4}
	flags := first & 15
	v5 := ver == 5
	r := &rd{b: body}
	var err error
	needFlags := func(want byte) error {
		if flags != want {
			return fmt.Errorf("%s: reserved flags are 0x%x, must be 0x%x", TypeNames[p.Type], flags, want)
		}
		return nil
	}
	switch p.Type {
	case CONNECT:
		if err = needFlags(0); err != nil {
			return nil, err
		}
		if p.ProtoName, err = r.str(); err != nil {
			return nil, err
		}
		if p.ProtoVer, err = r.byte_(); err != nil {
			return nil, err
		}
		cf, err := r.byte_()
		if err != nil {
			return nil, err
		}
		p.ConnReserved = cf&1 != 0
		p.CleanStart = cf&2 != 0
		if p.KeepAlive, err = r.u16(); err != nil {
			return nil, err
		}
		if p.ProtoVer == 5 {
			if p.Props, err = decProps(r, CONNECT); err != nil {
				return nil, err
			}
		}
		if p.ClientID, err = r.str(); err != nil {
			return nil, err
		}
		if cf&4 != 0 {
			w := &Will{Qos: (cf >> 3) & 3, Retain: cf&32 != 0}
			if p.ProtoVer == 5 {
				if w.Props, err = decProps(r, willProps); err != nil {
					return nil, err
				}
			}
			if w.Topic, err = r.str(); err != nil {
				return nil, err
			}
			if w.Payload, err = r.bin(); err != nil {
				return nil, err
			}
			p.Will = w
		}
		if cf&128 != 0 {
			p.HasUsername = true
			if p.Username, err = r.str(); err != nil {
				return nil, err
			}
		}
		if cf&64 != 0 {
			p.HasPassword = true
			if p.Password, err = r.bin(); err != nil {
				return nil, err
			}
		}
	case CONNACK:
		if err = needFlags(0); err != nil {
			return nil, err
		}
		af, err := r.byte_()
		if err != nil {
			return nil, err
		}
		if af > 1 {
			return nil, fmt.Errorf("CONNACK: acknowledge flags 0x%x have reserved bits set", af)
		}
		p.SessionPresent = af == 1
		if p.ReasonCode, err = r.byte_(); err != nil {
			return nil, err
		}
		if v5 {
			if p.Props, err = decProps(r, CONNACK); err != nil {
				return nil, err
			}
		}
	case PUBLISH:
		p.Dup = flags&8 != 0
		p.Qos = (flags >> 1) & 3
		p.Retain = flags&1 != 0
		if p.Qos == 3 {
			return nil, errors.New("PUBLISH: QoS 3")
		}
		if p.Qos == 0 && p.Dup {
			return nil, errors.New("PUBLISH: DUP set on QoS 0")
		}
		if p.Topic, err = r.str(); err != nil {
			return nil, err
		}
		if p.Qos > 0 {
			if p.PacketID, err = r.u16(); err != nil {
				return nil, err
			}
			if p.PacketID == 0 {
				return nil, errors.New("PUBLISH: packet identifier 0")
			}
		}
		if v5 {
			if p.Props, err = decProps(r, PUBLISH); err != nil {
				return nil, err
			}
		}
		p.Payload = string(r.b[r.pos:])
		r.pos = len(r.b)
	case PUBACK, PUBREC, PUBREL, PUBCOMP:
		want := byte(0)
		if p.Type == PUBREL {
			want = 2
		}
		if err = needFlags(want); err != nil {
			return nil, err
		}
		if p.PacketID, err = r.u16(); err != nil {
			return nil, err
		}
		if p.PacketID == 0 {
			return nil, fmt.Errorf("%s: packet identifier 0", TypeNames[p.Type])
		}
		if v5 && r.left() > 0 {
			if p.ReasonCode, err = r.byte_(); err != nil {
				return nil, err
			}
			if r.left() > 0 {
				if p.Props, err = decProps(r, p.Type); err != nil {
					return nil, err
				}
			}
		}
	case SUBSCRIBE, UNSUBSCRIBE:
		if err = needFlags(2); err != nil {
			return nil, err
		}
		if p.PacketID, err = r.u16(); err != nil {
			return nil, err
		}
		if v5 {
			if p.Props, err = decProps(r, p.Type); err != nil {
				return nil, err
			}
		}
		for r.left() > 0 {
			var f Filter
			if f.Filter, err = r.str(); err != nil {
				return nil, err
			}
			if p.Type == SUBSCRIBE {
				if f.Opts, err = r.byte_(); err != nil {
					return nil, err
				}
			}
			p.Filters = append(p.Filters, f)
		}
		if len(p.Filters) == 0 {
			return nil, errors.New("no filters")
		}
	case SUBACK, UNSUBACK:
		if err = needFlags(0); err != nil {
			return nil, err
		}
		if p.PacketID, err = r.u16(); err != nil {
			return nil, err
		}
		if v5 {
			if p.Props, err = decProps(r, p.Type); err != nil {
				return nil, err
			}
		}
		if p.Type == SUBACK || v5 {
			p.ReasonCodes = append([]byte(nil), r.b[r.pos:]...)
			r.pos = len(r.b)
			if len(p.ReasonCodes) == 0 {
				return nil, fmt.Errorf("%s without reason codes", TypeNames[p.Type])
			}
		}
	case PINGREQ, PINGRESP:
		if err = needFlags(0); err != nil {
			return nil, err
		}
	case DISCONNECT, AUTH:
		if err = needFlags(0); err != nil {
			return nil, err
		}
		if !v5 && p.Type == AUTH {
			return nil, errors.New("AUTH in an MQTT 3 stream")
		}
		if v5 && r.left() > 0 {
			if p.ReasonCode, err = r.byte_(); err != nil {
				return nil, err
			}
			if r.left() > 0 {
				if p.Props, err = decProps(r, p.Type); err != nil {
					return nil, err
				}
			}
		}
	default:
		return nil, fmt.Errorf("reserved packet type %d", p.Type)
	}
	if r.left() != 0 {
		return nil, fmt.Errorf("%s: %d trailing bytes", TypeNames[p.Type], r.left())
	}
	return p, nil
}
