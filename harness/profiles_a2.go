package harness

import (
	"fmt"
	"sort"
	"strings"

	"verifharness/refcodec"
	"verifharness/refmatch"
)

// token alphabet for matching histories (C01, C02, C30, C40)
// ("$" is special only as the first character of a topic: "a/$b" is an ordinary topic that leading wildcards match)
var alphaTopics = []string{"a", "a/b", "a/b/c", "a//b", "/a", "a/", "b", "b/a", "$x", "$x/a", "$SYS/x", "a/b/c/d", "/", "a/$b", "b/$"}
var alphaFilters = []string{"a", "a/b", "a/#", "a/+", "+", "#", "+/b", "+/#", "a/+/c", "a/b/#", "+/+", "/#", "/+", "a//b", "a/+/b", "$x/#", "$x/+", "+/a", "a/b/c/#", "b/#", "/a", "a/"}
var alphaShared = []string{"$share/g1/a/#", "$share/g1/+", "$share/g2/a/b", "$share/g1/#", "$share/g2/+/b", "$SHARE/g1/a"}

func baseSched(t *Tape, cfg *Config) { GenSchedConfig(t, cfg) }

// ---------------------------------------------------------------------------------------------------
// C01: subscription matching (QoS 0 probes over the token alphabet)

func genC01(t *Tape) *Plan {
	k := DefaultKnobs()
	k.Slots = 4
	k.IDs = []string{"a", "b", "c", "d"}
	k.Topics = alphaTopics
	k.Filters = alphaFilters
	k.SharedFilters = alphaShared
	k.Ops = 22
	k.WConnect, k.WSub, k.WUnsub, k.WPub, k.WDisc, k.WDrop = 1, 8, 3, 9, 0, 0
	k.QosW = [3]int{1, 0, 0}
	k.SubQosW = [3]int{1, 0, 0}
	k.CleanPct = 100
	k.MultiFilterPct = 30
	k.ConcPct = []int{0, 0, 25}[t.Draw("c01.conc", 3)]
	g := NewGen(t, &k, "C01")
	baseSched(t, &g.plan.Cfg)
	g.plan.Cfg.Inline = t.Draw("c01.inline", 3) == 0
	if g.plan.Cfg.Inline {
		k.WInlineSub, k.WInlineUnsub, k.WInlinePub = 2, 1, 2
	}
	for s := 0; s < k.Slots; s++ {
		g.Connect(s)
		g.plan.Ops[len(g.plan.Ops)-1].Concurrent = false
	}
	return g.Run()
}

func relevantDelivery(r *Result) (bool, []string) {
	probes := map[string]bool{}
	n := 0
	for _, c := range r.Ex.Conns {
		for _, pr := range c.Pkts {
			if pr.P.Type == refcodec.PUBLISH {
				n++
				probes["delivered-"+shape(pr.P.Topic)] = true
			}
		}
	}
	for _, op := range r.Plan.Ops {
		if op.Kind == "subscribe" {
			for _, f := range op.Pkt.Filters {
				probes["filter-"+shape(f.Filter)] = true
			}
		}
	}
	var ps []string
	for p := range probes {
		ps = append(ps, p)
	}
	return n >= 1, ps
}

func checkC01(r *Result) []Violation {
	var out []Violation
	for _, v := range checkDelivery(r, "C03") {
		if v.Class == "missing-delivery" || v.Class == "unexpected-delivery" || v.Class == "duplicate-delivery" {
			v.Property = "C01"
			out = append(out, v)
		}
	}
	out = append(out, checkInline(r, "C01")...)
	// shared subscriptions are selected by the same matching rules: a share group whose filter matches (all members
	// connected, none of them holding another matching subscription) has a member that receives the message. Which
	// member, and that it is only one, is C06's business.
	for _, v := range checkC06(r) {
		if v.Property == "C06" && v.Class == "no-member-chosen" {
			v.Property, v.Class = "C01", "matching-shared-subscription-not-selected"
			out = append(out, v)
		}
	}
	return out
}

// ---------------------------------------------------------------------------------------------------
// C02 / C05: retained messages

func genRetained(t *Tape, name string) *Plan {
	k := DefaultKnobs()
	k.Slots = 3
	k.Topics = alphaTopics
	k.Filters = alphaFilters
	if name == "C05" {
		k.Topics = []string{"a", "a/b", "b", "a/b/c"}
		k.Filters = []string{"a", "a/#", "#", "+", "a/+", "b"}
		k.SharedFilters = []string{"$share/g1/a/#", "$share/g1/#"}
		k.RHW = [3]int{2, 2, 2}
	}
	k.Ops = 20
	k.WConnect, k.WSub, k.WUnsub, k.WPub, k.WDisc, k.WDrop = 1, 7, 2, 9, 0, 0
	k.RetainPct = 75
	k.QosW = [3]int{3, 2, 1}
	k.SubQosW = [3]int{2, 2, 2}
	k.CleanPct = 100
	k.V5Pct = 60
	k.MultiFilterPct = 25
	k.SubIDPct = 30
	g := NewGen(t, &k, name)
	baseSched(t, &g.plan.Cfg)
	if name == "C05" {
		g.plan.Cfg.RetainOff = t.Draw("c05.retainoff", 6) == 0
		k.ConcPct = []int{0, 0, 30}[t.Draw("c05.conc", 3)]
	}
	n := 8 + t.Draw("ret.len", 13)
	for len(g.plan.Ops) < n {
		if t.Draw("ret.clear", 6) == 0 { // clear a retained topic (empty payload)
			slot := t.Draw("op.slot", k.Slots)
			g.ensureConnected(slot)
			i := g.Publish(slot)
			g.plan.Ops[i].Pkt.Retain = true
			g.plan.Ops[i].Pkt.Payload = ""
		} else {
			g.Step()
		}
	}
	g.plan.Ops[len(g.plan.Ops)-1].Concurrent = false
	return g.plan
}

func genC02(t *Tape) *Plan { return genRetained(t, "C02") }
func genC05(t *Tape) *Plan { return genRetained(t, "C05") }

func relevantRetained(r *Result) (bool, []string) {
	probes := map[string]bool{}
	n := 0
	for _, c := range r.Ex.Conns {
		for _, pr := range c.Pkts {
			if pr.P.Type == refcodec.PUBLISH && pr.P.Retain {
				n++
				probes["retained-replay-"+shape(pr.P.Topic)] = true
			}
		}
	}
	for _, op := range r.Plan.Ops {
		if op.Kind == "subscribe" {
			for _, f := range op.Pkt.Filters {
				probes[fmt.Sprintf("rh%d", f.RH())] = true
			}
		}
		if op.Kind == "publish" && op.Pkt.Retain && op.Pkt.Payload == "" {
			probes["retain-clear"] = true
		}
	}
	var ps []string
	for p := range probes {
		ps = append(ps, p)
	}
	return n >= 1, ps
}

// ---------------------------------------------------------------------------------------------------
// C03

func genC03(t *Tape) *Plan {
	k := DefaultKnobs()
	k.Slots = 4
	k.IDs = []string{"a", "b", "c", "a"}
	k.Topics = []string{"t", "t/a", "t/b", "u", "deny/r", "deny/w"}
	k.Filters = []string{"t", "t/a", "t/+", "t/#", "#", "u", "+/a", "deny/r", "deny/#"}
	k.Ops = 20
	k.WConnect, k.WSub, k.WUnsub, k.WPub, k.WDisc, k.WDrop = 2, 5, 2, 10, 1, 1
	k.NoLocalPct = 30
	k.PropsPct = 40
	k.V5Pct = 55
	k.CleanPct = 60
	k.ConcPct = []int{0, 20, 45}[t.Draw("c03.conc", 3)]
	k.PadMax = 40
	k.MaxPktChoices = []uint32{0, 0, 0, 48}
	g := NewGen(t, &k, "C03")
	cfg := &g.plan.Cfg
	baseSched(t, cfg)
	cfg.Auth = "perm"
	cfg.Deny = []DenyRule{{Topic: "deny/w", Write: true}, {Topic: "deny/r", Write: false}, {Client: "b", Topic: "u", Write: false}}
	switch t.Draw("c03.faults", 5) {
	case 1:
		cfg.WritesPending = int32(1 + t.Draw("c03.wp", 3))
		k.WStall = 1
	case 2:
		cfg.MaxInflight = uint16(1 + t.Draw("c03.mi", 3))
		k.ManualAckPct = 60
	case 3:
		cfg.MaxPacketID = uint32(2 + t.Draw("c03.mpid", 3))
		k.ManualAckPct = 60
	}
	return g.Run()
}

// ---------------------------------------------------------------------------------------------------
// C04

func genC04(t *Tape) *Plan {
	k := DefaultKnobs()
	k.Slots = 3
	k.Topics = []string{"t", "t/a", "u"}
	k.Filters = []string{"t", "t/#", "#", "+", "t/+", "t/a", "u"}
	k.Ops = 18
	k.WConnect, k.WSub, k.WUnsub, k.WPub, k.WDisc, k.WDrop = 1, 7, 1, 9, 0, 0
	k.SubIDPct = 60
	k.RAPPct = 40
	k.RetainPct = 40
	k.QosW = [3]int{2, 2, 2}
	k.V5Pct = 65
	k.CleanPct = 100
	k.MultiFilterPct = 30
	if t.Draw("c04.sessions", 3) == 0 {
		// the options of a subscription also hold for a session that is resumed (by a reconnect or a takeover) after
		// the subscription was replaced by a later SUBSCRIBE to the same filter: few filters, many SUBSCRIBEs,
		// persistent sessions, drops and reconnects
		k.Filters = []string{"t", "t/#", "u"}
		k.CleanPct = 10
		k.ExpiryChoices = []uint32{300}
		k.WConnect, k.WSub, k.WUnsub, k.WPub, k.WDisc, k.WDrop = 4, 8, 1, 9, 1, 2
	}
	g := NewGen(t, &k, "C04")
	baseSched(t, &g.plan.Cfg)
	g.plan.Cfg.MaxQos = byte(t.Draw("c04.maxqos", 3))
	if t.Draw("c04.maxqos2", 2) == 0 {
		g.plan.Cfg.MaxQos = 2
	}
	return g.Run()
}

func relevantC04(r *Result) (bool, []string) {
	probes := map[string]bool{}
	n := 0
	for _, c := range r.Ex.Conns {
		for _, pr := range c.Pkts {
			if pr.P.Type == refcodec.PUBLISH {
				n++
				probes[fmt.Sprintf("delivered-q%d-retain%v-subids%d", pr.P.Qos, pr.P.Retain, len(pr.P.Props.All(refcodec.PSubscriptionID)))] = true
			}
		}
	}
	var ps []string
	for p := range probes {
		ps = append(ps, p)
	}
	return n >= 1, ps
}

// ---------------------------------------------------------------------------------------------------
// C06: shared subscriptions

func genC06(t *Tape) *Plan {
	k := DefaultKnobs()
	k.Slots = 4
	k.IDs = []string{"a", "b", "c", "d"}
	k.Topics = []string{"t", "t/a", "u"}
	k.Filters = []string{"t", "t/#", "u"}
	k.SharedFilters = []string{"$share/g1/t", "$share/g1/t/#", "$share/g2/t", "$share/g1/+", "$share/g2/t/a", "$share/g1/u"}
	k.Ops = 22
	k.WConnect, k.WSub, k.WUnsub, k.WPub, k.WDisc, k.WDrop = 0, 8, 2, 10, 0, 0
	k.CleanPct = 100
	k.QosW = [3]int{3, 2, 1}
	g := NewGen(t, &k, "C06")
	baseSched(t, &g.plan.Cfg)
	g.plan.Cfg.MapOrder = t.Draw("c06.maporder", 4) != 0
	if t.Draw("c06.v5ids", 2) == 0 {
		k.V5Pct = 100 // all MQTT 5 with one subscription identifier per SUBSCRIBE: copies can be attributed to groups
		k.MultiFilterPct = 0
	}
	for s := 0; s < k.Slots; s++ {
		g.Connect(s)
	}
	if k.V5Pct == 100 && t.Draw("c06.twogroups", 2) == 0 {
		// overlap skeleton: one client is a member of two groups that match the same topic, each group has another
		// member of its own, and the topic is published a few times (which member a group picks is the broker's
		// choice, so several publishes are needed to see every combination). The random tail follows.
		sub := func(slot int, filter string) {
			i := g.Subscribe(slot)
			g.plan.Ops[i].Pkt.Filters = []refcodec.Filter{{Filter: filter, Opts: 0}}
		}
		sub(0, "$share/g1/t")
		sub(0, "$share/g2/t")
		sub(1, "$share/g1/t")
		sub(2, "$share/g2/t")
		for i, n := 0, 3+t.Draw("c06.twogroups.pubs", 4); i < n; i++ {
			pi := g.Publish(3)
			g.plan.Ops[pi].Pkt.Topic = "t"
		}
		for i := range g.plan.Ops {
			g.plan.Ops[i].Concurrent = false
		}
	}
	p := g.Run()
	if k.V5Pct == 100 {
		for i := range p.Ops {
			if p.Ops[i].Kind == "subscribe" && p.Ops[i].Pkt != nil {
				var props refcodec.Props
				for _, pr := range p.Ops[i].Pkt.Props {
					if pr.ID != refcodec.PSubscriptionID {
						props = append(props, pr)
					}
				}
				p.Ops[i].Pkt.Props = append(props, refcodec.Prop{ID: refcodec.PSubscriptionID, Int: uint32(i + 1)})
			}
		}
	}
	return p
}

func checkC06(r *Result) []Violation {
	var out []Violation
	walk(r, func(m *Model, w *Window) {
		if !w.Complete || len(w.Ops) != 1 {
			return
		}
		oi := w.Ops[0]
		op := &r.Plan.Ops[oi]
		if op.Kind != "publish" {
			return
		}
		j := m.judgePublish(w, oi)
		if !j.Accepted {
			return
		}
		copies := m.copiesOf(w, oi, w.StartSeq, w.EndSeq)
		// group -> members
		groups := map[string][]string{}
		nGroups := map[string]int{}
		for id, gs := range j.Shared {
			for g := range gs {
				groups[g] = append(groups[g], id)
				nGroups[id]++
			}
		}
		var gnames []string
		for g := range groups {
			gnames = append(gnames, g)
		}
		sort.Strings(gnames)
		for _, g := range gnames {
			members := groups[g]
			sort.Strings(members)
			judge := true
			chosen := 0
			filters := map[string]bool{}
			for _, id := range members {
				c := m.Sess[id]
				if nGroups[id] != 1 || len(j.Matching[id]) > 0 || c == nil || c.Conn == nil {
					judge = false
				}
				for _, s := range j.Shared[id][g] {
					filters[shape(s.Filter)] = true
				}
				if len(copies[id]) > 0 {
					chosen++
				}
			}
			if !judge {
				// A member that also belongs to another matching group (or holds a matching plain subscription) gets one
				// merged copy, so "received" says nothing about this group. It can still be judged when every matching
				// subscription of every member carries its own subscription identifier: the copy lists the identifiers
				// of the subscriptions it was sent for.
				attributable := true
				chosen = 0
				for _, id := range members {
					c := m.Sess[id]
					if c == nil || c.Conn == nil || c.Conn.Ver != 5 {
						attributable = false
						break
					}
					ids := map[uint32]int{}
					for _, ss := range j.Shared[id] {
						for _, s := range ss {
							ids[s.SubID]++
						}
					}
					for _, s := range j.Matching[id] {
						ids[s.SubID]++
					}
					for v, n := range ids {
						if v == 0 || n > 1 {
							attributable = false
						}
					}
					if !attributable {
						break
					}
					for _, s := range j.Shared[id][g] {
						for _, pr := range copies[id] {
							for _, p := range pr.P.Props.All(refcodec.PSubscriptionID) {
								if p.Int == s.SubID {
									chosen++
								}
							}
						}
					}
				}
				if !attributable {
					continue
				}
				if chosen > 1 {
					var fl []string
					for f := range filters {
						fl = append(fl, f)
					}
					sort.Strings(fl)
					out = append(out, viol("C06", "multiple-members-chosen", fmt.Sprintf("publish op %d %s: %d copies carry the subscription identifier of a member subscription of share group %q (%v)", oi, op.Pkt, chosen, g, members), w.EndSeq,
						"group_filters", strings.Join(fl, ","), "distinct_filters", fmt.Sprint(len(fl)), "judged_by", "subscription-identifier"))
				}
				continue
			}
			var fl []string
			for f := range filters {
				fl = append(fl, f)
			}
			sort.Strings(fl)
			if chosen > 1 {
				out = append(out, viol("C06", "multiple-members-chosen", fmt.Sprintf("publish op %d %s: %d members of share group %q (%v) received it", oi, op.Pkt, chosen, g, members), w.EndSeq,
					"group_filters", strings.Join(fl, ","), "distinct_filters", fmt.Sprint(len(fl))))
			}
			if chosen == 0 && !hookSeenAny(r, w, "publish_dropped") {
				// did a member get its session by taking another connection over? (the known takeover race can remove
				// the new connection's subscriptions, shared ones included)
				tk := "false"
				for _, id := range members {
					if s := m.Sess[id]; s != nil && strings.Contains(s.Origin, "takeover") {
						tk = "true"
					}
				}
				// ... or did the message go to a session that is no member by the model but took its connection over from
				// another one? (the old connection's SUBSCRIBE may have been processed after the takeover: a ghost member
				// under the client id, which the group can pick instead of a real one)
				ghost := "false"
				for id, prs := range copies {
					if s := m.Sess[id]; len(prs) > 0 && !j.May[id] && s != nil && strings.Contains(s.Origin, "takeover") {
						ghost = "true"
					}
				}
				out = append(out, viol("C06", "no-member-chosen", fmt.Sprintf("publish op %d %s: no member of share group %q (%v) received it", oi, op.Pkt, g, members), w.EndSeq,
					"group_filters", strings.Join(fl, ","), "member_taken_over", tk, "takeover_ghost", ghost))
			}
		}
	})
	for _, v := range checkDelivery(r, "C03") {
		if v.Class == "duplicate-delivery" {
			v.Property = "C06"
			out = append(out, v)
		}
	}
	return out
}

func hookSeenAny(r *Result, w *Window, name string) bool {
	for _, e := range r.H.Evs {
		if e.Seq >= w.StartSeq && e.Seq <= w.EndSeq && e.Kind == "hook" && e.Str == name {
			return true
		}
	}
	return false
}

func relevantC06(r *Result) (bool, []string) {
	probes := map[string]bool{}
	n := 0
	chosenBy := map[string]bool{}
	for _, c := range r.Ex.Conns {
		for _, pr := range c.Pkts {
			if pr.P.Type == refcodec.PUBLISH {
				chosenBy[c.CID] = true
			}
		}
	}
	for id := range chosenBy {
		probes["member-"+id+"-received"] = true
	}
	for _, op := range r.Plan.Ops {
		if op.Kind == "subscribe" {
			for _, f := range op.Pkt.Filters {
				if _, _, sh := refmatch.SplitShare(f.Filter); sh {
					n++
				}
			}
		}
	}
	var ps []string
	for p := range probes {
		ps = append(ps, p)
	}
	return n >= 2 && len(chosenBy) > 0, ps
}

func init() {
	register(&Profile{Name: "C01", Gen: genC01, Check: checkC01, Relevant: relevantDelivery})
	register(&Profile{Name: "C02", Gen: genC02, Check: checkC02, Relevant: relevantRetained})
	register(&Profile{Name: "C03", Gen: genC03, Check: checkC03, Relevant: relevantDelivery})
	register(&Profile{Name: "C04", Gen: genC04, Check: checkC04, Relevant: relevantC04})
	register(&Profile{Name: "C05", Gen: genC05, Check: checkC05, Relevant: relevantRetained})
	register(&Profile{Name: "C06", Gen: genC06, Check: checkC06, Relevant: relevantC06})
}
