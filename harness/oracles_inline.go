package harness

import (
	"fmt"
	"sort"
	"strings"

	"verifharness/refmatch"
)

type inlineKey struct {
	filter string
	id     int
}

// checkInline judges the embedding API (C40; its matching half also serves C01): inline subscriptions
// receive exactly the matching publishes, retained messages first on subscribe, and unsubscribing one
// identifier stops only that one.
func checkInline(r *Result, prop string) []Violation {
	var out []Violation
	if !r.Plan.Cfg.Inline {
		return nil
	}
	subs := map[inlineKey]bool{}
	ambig := map[inlineKey]bool{}
	walk(r, func(m *Model, w *Window) {
		if !w.Complete {
			return
		}
		single := len(w.Ops) == 1
		// inline subscribe / unsubscribe calls of one window run as concurrent API calls: when two of them address
		// the same (filter, id) their order is the scheduler's, and the outcome stays undetermined until a later
		// call on that key that runs alone
		touched := map[inlineKey]int{}
		for _, oi := range w.Ops {
			if op := &r.Plan.Ops[oi]; op.Kind == "inline_sub" || op.Kind == "inline_unsub" {
				touched[inlineKey{op.Str, op.N}]++
			}
		}
		for k, n := range touched {
			if n > 1 {
				ambig[k] = true
			} else {
				delete(ambig, k) // a lone call on the key decides its state whatever else runs beside it
			}
		}
		for _, oi := range w.Ops {
			op := &r.Plan.Ops[oi]
			switch op.Kind {
			case "publish", "inline_pub":
				if !single || op.Pkt == nil || op.Pkt.Payload == "" {
					continue
				}
				undetermined := map[int]bool{}
				for k := range ambig {
					if refmatch.Match(k.filter, op.Pkt.Topic) {
						undetermined[k.id] = true
					}
				}
				_, _, ok := m.publisherOK(oi)
				want := payloadIDOf(op.Pkt.Payload)
				got := map[int]int{}
				for _, e := range r.H.Evs {
					if e.Seq > w.StartSeq && e.Seq < w.EndSeq && e.Kind == "inline" && payloadIDOf(e.Str2) == want {
						got[int(e.N)]++
					}
				}
				exp := map[int]int{}
				var shapes []string
				for k := range subs {
					if ok && refmatch.Match(k.filter, op.Pkt.Topic) {
						exp[k.id]++
						shapes = append(shapes, shape(k.filter))
					}
				}
				sort.Strings(shapes)
				ids := map[int]bool{}
				for id := range got {
					ids[id] = true
				}
				for id := range exp {
					ids[id] = true
				}
				for id := range ids {
					if undetermined[id] {
						continue
					}
					if exp[id] > 0 && got[id] == 0 {
						var fs []string
						for k := range subs {
							if k.id == id && refmatch.Match(k.filter, op.Pkt.Topic) {
								fs = append(fs, shape(k.filter))
							}
						}
						sort.Strings(fs)
						out = append(out, viol(prop, "inline-missing", fmt.Sprintf("publish op %d %s did not reach inline subscription id %d (filters %v)", oi, op.Pkt, id, fs), w.EndSeq,
							"filters", fmt.Sprint(fs), "topic", shape(op.Pkt.Topic), "origin", op.Kind))
					}
					if got[id] > exp[id] {
						cls := "inline-duplicate"
						if exp[id] == 0 {
							cls = "inline-unexpected"
						}
						out = append(out, viol(prop, cls, fmt.Sprintf("publish op %d %s invoked inline subscription id %d %d times (expected at most %d)", oi, op.Pkt, id, got[id], exp[id]), w.EndSeq,
							"topic", shape(op.Pkt.Topic), "origin", op.Kind))
					}
				}
			case "inline_sub":
				if refmatch.ValidFilter(op.Str) {
					if _, _, sh := refmatch.SplitShare(op.Str); !sh {
						subs[inlineKey{op.Str, op.N}] = true
					}
				}
				if single && prop == "C40" {
					// retained first: every matching retained message is handed to the handler
					got := map[string]int{}
					for _, e := range r.H.Evs {
						if e.Seq > w.StartSeq && e.Seq < w.EndSeq && e.Kind == "inline" && int(e.N) == op.N {
							got[e.Str]++
						}
					}
					for topic := range m.Retained {
						if refmatch.Match(op.Str, topic) && got[topic] == 0 {
							out = append(out, viol("C40", "inline-retained-missing", fmt.Sprintf("inline subscribe op %d %q id %d: retained message on %q not handed to the handler", oi, op.Str, op.N, topic), w.EndSeq,
								"filter", shape(op.Str), "topic", shape(topic)))
						}
					}
					for topic, n := range got {
						if _, ok := m.Retained[topic]; !ok || !refmatch.Match(op.Str, topic) {
							out = append(out, viol("C40", "inline-retained-unexpected", fmt.Sprintf("inline subscribe op %d %q id %d: handler got %d message(s) on %q which is not a matching retained topic", oi, op.Str, op.N, n, topic), w.EndSeq,
								"filter", shape(op.Str), "topic", shape(topic)))
						}
					}
				}
			case "inline_unsub":
				delete(subs, inlineKey{op.Str, op.N})
			}
		}
	})
	return out
}

// viaKinds summarises how a set of matching subscriptions matches a topic (sorted distinct refmatch kinds).
func viaKinds(subs []MSub, topic string) string {
	set := map[string]bool{}
	for _, s := range subs {
		set[refmatch.Kind(s.Filter, topic)] = true
	}
	var ks []string
	for k := range set {
		ks = append(ks, k)
	}
	sort.Strings(ks)
	out := ""
	for i, k := range ks {
		if i > 0 {
			out += ","
		}
		out += k
	}
	return out
}

// stallActive reports whether some connection was held in an injected write stall at any time inside
// [from,to]: then "quiescence" only means "nothing can move until the stall ends", and absent deliveries
// prove nothing.
func stallActive(r *Result, from, to int) bool {
	on := map[int]bool{}
	for _, e := range r.H.Evs {
		if e.Seq > to {
			break
		}
		switch e.Kind {
		case "stall-on":
			on[e.Conn] = true
		case "stall-off", "close":
			if e.Seq < from {
				delete(on, e.Conn)
			} else if on[e.Conn] {
				return true
			}
		}
	}
	return len(on) > 0
}

func originOf(s *MSess) string {
	if s == nil {
		return "unknown"
	}
	return s.Origin
}

// unexpectedCause names, for reports and known-finding matching, the most specific structural reason why
// the broker might have delivered a publish the model says the session is not entitled to.
func unexpectedCause(s *MSess, topic string, accepted bool) string {
	if !accepted {
		return "publish-must-not-be-routed"
	}
	if s == nil {
		return "session-unknown-to-model"
	}
	// Deterministic: candidate causes are collected over all subscriptions (a map) and the first of a fixed
	// priority list is reported. A subscription is blamed only if it would match once the rule in question
	// is ignored.
	dollar := strings.HasPrefix(topic, "$")
	laxMatch := func(filter string) bool { // matching without the "$ topics and leading wildcards" rule
		if dollar {
			return refmatch.Match(filter, "x"+topic[1:]) || refmatch.Match(filter, topic)
		}
		return refmatch.Match(filter, topic)
	}
	found := map[string]bool{}
	for _, sub := range s.Subs {
		f := sub.Filter
		if len(f) > 7 && strings.EqualFold(f[:7], "$share/") && !strings.HasPrefix(f, "$share/") {
			if _, inner, sh := refmatch.SplitShare("$share/" + f[7:]); sh && laxMatch(inner) {
				found["share-prefix-not-lower-case"] = true
			}
			continue
		}
		_, inner, sh := refmatch.SplitShare(f)
		if dollar && (strings.HasPrefix(inner, "+") || strings.HasPrefix(inner, "#")) && laxMatch(inner) {
			if sh {
				found["shared-leading-wildcard-matches-dollar-topic"] = true
			} else {
				found["leading-wildcard-matches-dollar-topic"] = true
			}
		}
	}
	for _, c := range []string{"leading-wildcard-matches-dollar-topic", "shared-leading-wildcard-matches-dollar-topic", "share-prefix-not-lower-case"} {
		if found[c] {
			return c
		}
	}
	if len(s.Subs) == 0 {
		return "session-holds-no-subscription"
	}
	return "no-matching-subscription"
}
