package harness

import (
	"verifharness/refcodec"
)

// Config is the per-run (swarm) configuration: server options, hook set, scheduler and fault parameters.
type Config struct {
	// ---- server ----
	MaxClients    int64  `json:"maxClients,omitempty"`    // 0 = default (unlimited)
	MaxQos        byte   `json:"maxQos"`                  // 0..2
	ReceiveMax    uint16 `json:"receiveMax,omitempty"`    // 0 = default 1024
	MaxInflight   uint16 `json:"maxInflight,omitempty"`   // 0 = default
	WritesPending int32  `json:"writesPending,omitempty"` // 0 = default
	WriteBuf      int    `json:"writeBuf,omitempty"`
	ReadBuf       int    `json:"readBuf,omitempty"`
	MaxPacketSize uint32 `json:"maxPacketSize,omitempty"`
	TopicAliasMax uint16 `json:"topicAliasMax"`
	MaxMsgExpiry  int64  `json:"maxMsgExpiry,omitempty"`  // 0 = default (1 day)
	NoMsgExpiryCap bool  `json:"noMsgExpiryCap,omitempty"` // MaximumMessageExpiryInterval = 0
	MaxSessExpiry uint32 `json:"maxSessExpiry,omitempty"` // 0 = default (max uint32)
	RetainOff     bool   `json:"retainOff,omitempty"`
	SharedOff     bool   `json:"sharedOff,omitempty"`
	Obscure       bool   `json:"obscure,omitempty"`
	Inline        bool   `json:"inline,omitempty"`
	SysInterval   int64  `json:"sysInterval,omitempty"` // 0 => 3600 (quiet); profiles that test $SYS set 1
	MinProto      byte   `json:"minProto,omitempty"`
	MaxPacketID   uint32 `json:"maxPacketID,omitempty"` // 0 = 65535
	Listener      string `json:"listener,omitempty"`    // "" direct establish, "tcp" real TCP accept loop over simulated net.Listener, "ws"
	// ---- hooks ----
	Auth  string     `json:"auth"` // "allow" | "none" | "perm" | "ledger"
	Deny  []DenyRule `json:"deny,omitempty"`
	DenyConnect []string `json:"denyConnect,omitempty"` // client ids refused by the perm hook
	Hooks []HookSpec `json:"hooks,omitempty"`           // programmable hooks (C19)
	// ---- scheduler ----
	Strategy   int      `json:"strategy"`   // 0 run-to-block, 1 random walk, 2 sticky random, 3 PCT
	PreemptPct int      `json:"preemptPct"` // strategy 2
	PCTDepth   int      `json:"pctDepth,omitempty"`
	ArmMode    int      `json:"armMode"` // 0 none (mandatory only), 1 all, 2 random subset ArmPct%, 3 focus (ArmFocus substrings) + ArmPct% of the rest
	ArmPct     int      `json:"armPct,omitempty"`
	ArmSeed    uint32   `json:"armSeed,omitempty"`
	ArmFocus   []string `json:"armFocus,omitempty"`
	HoldPct    int      `json:"holdPct,omitempty"` // chance that a task reaching a focus site is held (targeted stall)
	HoldMax    int      `json:"holdMax,omitempty"`
	MapOrder   bool     `json:"mapOrder,omitempty"` // permute map iteration
	SelOrder   bool     `json:"selOrder,omitempty"` // permute select polling
	ChunkPct   int      `json:"chunkPct,omitempty"` // chance that a client packet is delivered in pieces
	MaxSteps   int      `json:"maxSteps,omitempty"`
}

type DenyRule struct {
	Client string `json:"client"` // "" = any
	Topic  string `json:"topic"`  // exact topic or filter string
	Write  bool   `json:"write"`
}

// HookSpec programs one test hook of a stack (C19).
type HookSpec struct {
	OnPublish   string `json:"onPublish,omitempty"`   // "", "modify", "reject", "ignore", "error", "errcode"
	OnRead      string `json:"onRead,omitempty"`      // "", "modify", "reject", "error"
	OnSubscribe string `json:"onSubscribe,omitempty"` // "", "modify"
	Auth        string `json:"auth,omitempty"`        // "", "allow", "deny"
	ACL         string `json:"acl,omitempty"`         // "", "allow", "deny"
	Topic       string `json:"topic,omitempty"`       // restrict onPublish action to this topic ("" = all)
}

// Op is one step of a generated history.
type Op struct {
	Kind string `json:"kind"`
	Slot int    `json:"slot"`
	// Concurrent: do not wait for quiescence before issuing the next operation (overlapped histories).
	Concurrent bool             `json:"concurrent,omitempty"`
	Pkt        *refcodec.Packet `json:"pkt,omitempty"`
	Enc        refcodec.EncOpts `json:"enc,omitempty"`
	Ver        byte             `json:"ver,omitempty"` // protocol version used to encode Pkt (0 = the connection's)
	Ms         int              `json:"ms,omitempty"`
	Raw        []byte           `json:"raw,omitempty"`
	AckMode    int              `json:"ackMode,omitempty"` // connect: 0 auto, 1 manual (explicit ack ops), 2 PUBREC then silent, 3 never
	N          int              `json:"n,omitempty"`       // ack: which pending (0 = oldest); stall: bytes; etc.
	Str        string           `json:"str,omitempty"`     // inline ops: topic/filter
	Fault      string           `json:"fault,omitempty"`   // fault ops
	Note       string           `json:"note,omitempty"`
}

// Plan is a complete generated case: configuration plus operation history. Together with the schedule
// tape it determines an execution exactly.
type Plan struct {
	Profile string `json:"profile"`
	Cfg     Config `json:"cfg"`
	Ops     []Op   `json:"ops"`
}
