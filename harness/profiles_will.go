package harness

import (
	"fmt"
	"strings"

	"verifharness/refcodec"
)

// ---------------------------------------------------------------------------------------------------
// C16: will messages

func genC16(t *Tape) *Plan {
	k := DefaultKnobs()
	k.Slots = 3
	k.IDs = []string{"a", "b", "a"}
	k.Topics = []string{"w/a", "w/b"}
	k.Filters = []string{"x"}
	k.WillPct = 100
	k.CleanPct = 40
	k.V5Pct = 70
	k.ExpiryChoices = []uint32{0xFFFFFFFF, 0, 2, 30}
	k.WillDelayChoices = []uint32{0, 0, 1, 2, 3}
	k.KeepAlives = []uint16{0, 0, 0, 2}
	k.RetainPct = 30
	k.QosW = [3]int{2, 2, 1}
	g := NewGen(t, &k, "C16")
	cfg := &g.plan.Cfg
	GenSchedConfig(t, cfg)
	if t.Draw("c16.focus", 3) > 0 {
		cfg.ArmMode = 3
		cfg.ArmFocus = []string{"sendLWT", "attachClient", "inheritClientSession", "processDisconnect", "sendDelayedLWT", "Read"}
		cfg.HoldPct = []int{0, 25, 50}[t.Draw("c16.hold", 3)]
		cfg.HoldMax = 20
		if cfg.Strategy == 0 {
			cfg.Strategy = 2
		}
	}
	// observer
	g.plan.Ops = append(g.plan.Ops, Op{Kind: "connect", Slot: 9, Pkt: &refcodec.Packet{Type: refcodec.CONNECT, ProtoVer: 5, ClientID: "obs", CleanStart: true}, Note: "observer"})
	g.plan.Ops = append(g.plan.Ops, Op{Kind: "subscribe", Slot: 9, Pkt: &refcodec.Packet{Type: refcodec.SUBSCRIBE, PacketID: 1, Filters: []refcodec.Filter{{Filter: "#", Opts: 2}}}, Note: "observer"})
	n := 5 + t.Draw("c16.len", 9)
	for len(g.plan.Ops) < n {
		slot := t.Draw("op.slot", k.Slots)
		s := g.slots[slot]
		switch t.Pick("c16.kind", []int{4, 2, 2, 2, 1, 3, 1}) {
		case 0:
			g.Connect(slot)
			if t.Draw("c16.conc", 3) == 0 {
				g.plan.Ops[len(g.plan.Ops)-1].Concurrent = true
			}
		case 1:
			if s.connected {
				p := &refcodec.Packet{Type: refcodec.DISCONNECT}
				if s.ver == 5 && t.Draw("c16.d04", 2) == 1 {
					p.ReasonCode = 0x04
				}
				g.add(Op{Kind: "disconnect", Slot: slot, Pkt: p})
				g.plan.Ops = append(g.plan.Ops, Op{Kind: "close", Slot: slot})
				s.connected = false
			}
		case 2:
			g.Drop(slot)
			if len(g.plan.Ops) > 0 && t.Draw("c16.dropconc", 3) == 0 {
				g.plan.Ops[len(g.plan.Ops)-1].Concurrent = true
			}
		case 3: // protocol error: a second CONNECT
			if s.connected {
				g.add(Op{Kind: "packet", Slot: slot, Pkt: &refcodec.Packet{Type: refcodec.CONNECT, ProtoVer: s.ver, ClientID: s.id, CleanStart: true}, Note: "malformed"})
				s.connected = false
			}
		case 4:
			g.ensureConnected(slot)
			g.add(Op{Kind: "ping", Slot: slot, Pkt: &refcodec.Packet{Type: refcodec.PINGREQ}})
		case 5:
			g.plan.Ops = append(g.plan.Ops, Op{Kind: "advance", Ms: []int{500, 1000, 2000, 3500}[t.Draw("c16.adv", 4)]})
		case 6:
			g.ensureConnected(slot)
			g.Publish(slot)
		}
	}
	g.plan.Ops = append(g.plan.Ops, Op{Kind: "advance", Ms: 6000})
	for i := range g.plan.Ops {
		if g.plan.Ops[i].Kind == "advance" {
			g.plan.Ops[i].Concurrent = false
		}
	}
	g.plan.Ops[len(g.plan.Ops)-1].Concurrent = false
	return g.plan
}

type willCase struct {
	c        *Conn
	will     *refcodec.Will
	delay    uint32
	origDelay uint32
	endKind  string // normal, with-will, drop, error, takeover-clean, takeover-resume, keepalive, server, open
	endVT    int64
	endSeq   int
	overlap  bool
	sessEnd  int64 // virtual ms at which the session ends (-1 unknown / never within run)
	resumedAt int64 // virtual ms of a clean-start-0 CONNACK for the id after the end (-1 none)
}

func checkC16(r *Result) []Violation {
	var out []Violation
	// observer connection
	var obs *Conn
	for _, c := range r.Ex.Conns {
		if r.Plan.Ops[c.ConnectOp].Note == "observer" {
			obs = c
		}
	}
	if obs == nil {
		return nil
	}
	// the observer must hold its '#' subscription (and stay connected) for anything to be judged
	obsReady := -1
	for _, pr := range obs.Pkts {
		if pr.P.Type == refcodec.SUBACK && len(pr.P.ReasonCodes) == 1 && pr.P.ReasonCodes[0] < 0x80 {
			obsReady = pr.Seq
			break
		}
	}
	if obsReady < 0 {
		return nil
	}
	for _, e := range r.H.Evs {
		if e.Kind == "teardown" {
			break
		}
		if e.Kind == "close" && e.Conn == obs.Idx {
			return nil
		}
	}
	ws := BuildWindows(r)
	winOf := func(seq int) *Window {
		for i := range ws {
			if seq >= ws[i].StartSeq && seq <= ws[i].EndSeq {
				return &ws[i]
			}
		}
		return nil
	}
	m := NewModel(r)
	endRun := int64(0)
	for _, e := range r.H.Evs {
		if e.Kind == "teardown" {
			endRun = e.VT
		}
	}
	serverClosed := false
	for _, op := range r.Plan.Ops {
		if op.Kind == "server_close" {
			serverClosed = true
		}
	}
	if serverClosed {
		return nil
	}
	for _, c := range r.Ex.Conns {
		cp := connectPkt(c, r)
		if c == obs || cp == nil || cp.Will == nil || !verOK(c, r) || !validConnect(cp) {
			continue
		}
		ca := connack(c)
		if ca == nil || ca.P.ReasonCode != 0 {
			continue
		}
		wc := &willCase{c: c, will: cp.Will, sessEnd: -1, resumedAt: -1}
		if p, ok := cp.Will.Props.Get(refcodec.PWillDelay); ok && c.Ver == 5 {
			wc.delay = p.Int
		}
		eff, _ := m.effExpiry(cp)
		wc.origDelay = wc.delay
		if c.Ver == 5 && wc.delay > eff {
			wc.delay = eff // the session ends before the delay elapses: the will is due at the session's end
		}
		// how did the connection end?
		endSeq := -1
		for _, e := range r.H.Evs {
			if e.Kind == "teardown" {
				break
			}
			if e.Kind == "close" && e.Conn == c.Idx {
				endSeq, wc.endVT = e.Seq, e.VT
				break
			}
		}
		if endSeq < 0 {
			wc.endKind = "open"
		} else {
			wc.endSeq = endSeq
			w := winOf(endSeq)
			if w == nil {
				continue
			}
			kinds := map[string]bool{}
			for _, oi := range w.Ops {
				op := &r.Plan.Ops[oi]
				oc := m.connOfOp(oi)
				switch {
				case op.Kind == "connect" && op.Pkt != nil && op.Pkt.ClientID == c.CID && oi != c.ConnectOp:
					if op.Pkt.CleanStart {
						kinds["takeover-clean"] = true
					} else {
						kinds["takeover-resume"] = true
					}
				case oc == c && op.Kind == "disconnect":
					if op.Pkt.ReasonCode == 0x04 {
						kinds["with-will"] = true
					} else if op.Pkt.ReasonCode == 0 {
						kinds["normal"] = true
					} else {
						kinds["error"] = true
					}
				case oc == c && (op.Kind == "drop"):
					kinds["drop"] = true
				case oc == c && op.Kind == "close":
					kinds["peer-close"] = true
				case oc == c && (op.Kind == "packet" || op.Kind == "raw"):
					kinds["error"] = true
				case op.Kind == "advance":
					kinds["keepalive"] = true
				}
			}
			// a DISCONNECT delivered in an earlier window followed by the close op in this one
			for _, s := range sentPackets(r)[c.Idx] {
				if s.P != nil && s.P.Type == refcodec.DISCONNECT && s.Seq < endSeq {
					delete(kinds, "peer-close")
					if s.P.ReasonCode == 0x04 {
						kinds["with-will"] = true
					} else {
						kinds["normal"] = true
					}
				}
			}
			if len(kinds) != 1 {
				wc.overlap = true
			}
			for k := range kinds {
				wc.endKind = k
			}
		}
		// a connection resuming the session (clean start 0) established afterwards
		for _, c2 := range r.Ex.Conns {
			cp2 := connectPkt(c2, r)
			if c2 == c || cp2 == nil || cp2.ClientID != c.CID || c2.ConnectOp < c.ConnectOp {
				continue
			}
			if ca2 := connack(c2); ca2 != nil && ca2.P.ReasonCode == 0 && !cp2.CleanStart && wc.resumedAt < 0 {
				wc.resumedAt = ca2.VT
			}
		}
		// publications of this will seen by the observer
		var pubs []*PktRec
		for _, pr := range obs.Pkts {
			if pr.P.Type == refcodec.PUBLISH && payloadIDOf(pr.P.Payload) == cp.Will.Payload && !pr.P.Dup {
				pubs = append(pubs, pr)
			}
		}
		n := len(pubs)
		// is a delayed will involved at all? "own": this will was sent with a Will Delay Interval; "same-id": another
		// connection with this client id had one (delayed wills are kept per client id); "none".
		delayed := "none"
		if wc.origDelay > 0 {
			delayed = "own"
		} else {
			for _, c2 := range r.Ex.Conns {
				cp2 := connectPkt(c2, r)
				if c2 == c || cp2 == nil || cp2.ClientID != c.CID || cp2.Will == nil || c2.Ver != 5 {
					continue
				}
				if p, ok := cp2.Will.Props.Get(refcodec.PWillDelay); ok && p.Int > 0 {
					delayed = "same-id"
				}
			}
		}
		feat := []string{"end", wc.endKind, "delay", fmt.Sprint(wc.delay > 0), "ver", verClass(c.Ver), "delayed", delayed}
		if wc.overlap || wc.endKind == "" {
			// overlapping causes: only the upper bound can be judged
			if n > 1 {
				out = append(out, viol("C16", "will-published-twice", fmt.Sprintf("conn %d: will %q published %d times", c.Idx, cp.Will.Payload, n), pubs[1].Seq, feat...))
			}
			continue
		}
		want := -1
		switch wc.endKind {
		case "open":
			want = 0
		case "normal":
			want = 0
		case "with-will", "drop", "error", "keepalive", "peer-close":
			want = 1
		case "takeover-clean":
			want = 1
		case "takeover-resume":
			if wc.delay > 0 {
				want = 0
			} else {
				want = 1
			}
		}
		if wc.endKind == "takeover-clean" {
			wc.delay = 0 // the session ends with the takeover: the will is due at once
		}
		if want == 1 && wc.delay > 0 {
			due := wc.endVT + int64(wc.delay)*1000
			if wc.resumedAt >= 0 && wc.resumedAt <= due {
				want = 0
			} else if endRun < due+2500 {
				want = -1 // the run ended before the delayed will was certainly due
			}
		}
		if n > 1 {
			out = append(out, viol("C16", "will-published-twice", fmt.Sprintf("conn %d: will %q published %d times", c.Idx, cp.Will.Payload, n), pubs[1].Seq, feat...))
		}
		if want == 0 && n > 0 {
			why := wc.endKind
			if wc.resumedAt >= 0 && wc.delay > 0 {
				why = "resumed-before-delay"
			}
			out = append(out, viol("C16", "will-published-when-it-must-not", fmt.Sprintf("conn %d (id %q) ended by %s; will %q was published at t=%dms (delay %d s, resumed at %d)", c.Idx, c.CID, wc.endKind, cp.Will.Payload, pubs[0].VT, wc.delay, wc.resumedAt), pubs[0].Seq,
				append(feat, "why", why)...))
		}
		if want == 1 && n == 0 && endRun < wc.endVT+int64(wc.origDelay)*1000+2500 {
			want = -1 // a broker that (wrongly) waits for the full delay would not have published yet: undecided
		}
		if want == 1 && n == 0 {
			out = append(out, viol("C16", "will-not-published", fmt.Sprintf("conn %d (id %q, MQTT %d) ended by %s at t=%dms; will %q (delay %d s) was never published", c.Idx, c.CID, c.Ver, wc.endKind, wc.endVT, cp.Will.Payload, wc.delay), wc.endSeq, feat...))
		}
		if n >= 1 && want == 1 {
			pr := pubs[0]
			if wc.origDelay > wc.delay && wc.endKind != "takeover-clean" {
				due := wc.endVT + int64(wc.delay)*1000
				if pr.VT > due+2500 {
					out = append(out, viol("C16", "delayed-will-too-late", fmt.Sprintf("conn %d: will delay %d s but the session ends %d s after the disconnect (t=%dms); will published at t=%dms", c.Idx, wc.origDelay, wc.delay, wc.endVT, pr.VT), pr.Seq,
						append(feat, "why", "session-ended-before-delay")...))
				}
			}
			if wc.delay > 0 {
				due := wc.endVT + int64(wc.delay)*1000
				if pr.VT < due-999 {
					out = append(out, viol("C16", "delayed-will-too-early", fmt.Sprintf("conn %d: will delay %d s, connection ended at t=%dms, will published at t=%dms", c.Idx, wc.delay, wc.endVT, pr.VT), pr.Seq, feat...))
				}
				if pr.VT > due+2500 {
					out = append(out, viol("C16", "delayed-will-too-late", fmt.Sprintf("conn %d: will delay %d s, connection ended at t=%dms, will published at t=%dms", c.Idx, wc.delay, wc.endVT, pr.VT), pr.Seq, feat...))
				}
			}
			if pr.P.Topic != cp.Will.Topic {
				out = append(out, viol("C16", "will-topic", fmt.Sprintf("conn %d: will topic %q published on %q", c.Idx, cp.Will.Topic, pr.P.Topic), pr.Seq))
			}
			if pr.P.Payload != cp.Will.Payload {
				out = append(out, viol("C16", "will-payload", fmt.Sprintf("conn %d: will payload %q published as %q", c.Idx, cp.Will.Payload, pr.P.Payload), pr.Seq))
			}
			wq := cp.Will.Qos
			if r.Plan.Cfg.MaxQos < wq {
				wq = r.Plan.Cfg.MaxQos
			}
			if pr.P.Qos != wq {
				out = append(out, viol("C16", "will-qos", fmt.Sprintf("conn %d: will qos %d published with qos %d", c.Idx, cp.Will.Qos, pr.P.Qos), pr.Seq, "want", fmt.Sprint(wq), "got", fmt.Sprint(pr.P.Qos)))
			}
			// retain: the will must be in the retained store afterwards
			if cp.Will.Retain && !r.Plan.Cfg.RetainOff {
				q := firstQuiesceAfter(r.H, pr.Seq)
				if p := probeAt(r, q); p != nil {
					found := false
					for _, t := range p.RetainedTopics {
						if t == cp.Will.Topic {
							found = true
						}
					}
					if !found {
						out = append(out, viol("C16", "will-not-retained", fmt.Sprintf("conn %d: will with retain flag on %q was published but is not in the retained store", c.Idx, cp.Will.Topic), q, feat...))
					}
				}
			}
		}
	}
	return out
}

func relevantC16(r *Result) (bool, []string) {
	probes := map[string]bool{}
	n := 0
	for _, c := range r.Ex.Conns {
		if cp := connectPkt(c, r); cp != nil && cp.Will != nil {
			n++
			if cp.Will.Props.Has(refcodec.PWillDelay) {
				probes["will-delay"] = true
			}
		}
	}
	for _, e := range r.H.Evs {
		if e.Kind == "hook" && e.Str == "will_sent" {
			probes["will-sent"] = true
		}
		if e.Kind == "pkt" && e.Pkt != nil && e.Pkt.Type == refcodec.PUBLISH && strings.HasPrefix(e.Pkt.Payload, "w") {
			probes["will-observed"] = true
		}
	}
	var ps []string
	for p := range probes {
		ps = append(ps, p)
	}
	return n >= 1, ps
}

func init() {
	register(&Profile{Name: "C16", Gen: genC16, Check: checkC16, Relevant: relevantC16})
}
