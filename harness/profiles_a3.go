package harness

import (
	"fmt"
	"strings"

	"verifharness/refcodec"
)

// ---------------------------------------------------------------------------------------------------
// C14: session present flag, resumption and takeover

type c14State struct {
	exists     bool
	persistent bool
	live       *Conn
	ambiguous  bool // overlapping operations on this id: which connection is the live one is not determined
}

func checkC14(r *Result) []Violation {
	var out []Violation
	S := map[string]*c14State{}
	m := NewModel(r)
	ws := BuildWindows(r)
	timeMoved := false
	reported2 := map[string]bool{}
	for wi := range ws {
		w := &ws[wi]
		// which ids are touched by more than one op in this window (overlap => both outcomes allowed)
		touch := map[string]int{}
		for _, oi := range w.Ops {
			op := &r.Plan.Ops[oi]
			switch op.Kind {
			case "connect":
				if op.Pkt != nil {
					touch[op.Pkt.ClientID]++
				}
			case "disconnect", "drop", "close", "packet", "raw", "publish", "subscribe", "unsubscribe", "stall", "failwrite":
				if c := m.connOfOp(oi); c != nil && (op.Kind != "publish" && op.Kind != "subscribe" && op.Kind != "unsubscribe") {
					touch[c.CID]++
				}
			case "advance", "clockstep":
				timeMoved = true
			case "server_close":
				for id := range S {
					touch[id] += 2
				}
			}
		}
		// broker-initiated closes of a live connection inside the window also overlap
		for _, e := range r.H.Evs {
			if e.Seq >= w.StartSeq && e.Seq <= w.EndSeq && e.Kind == "close" && e.Conn >= 0 {
				c := r.Ex.Conns[e.Conn]
				if st := S[c.CID]; st != nil && st.live == c {
					touch[c.CID]++
				}
			}
		}
		for _, oi := range w.Ops {
			op := &r.Plan.Ops[oi]
			if op.Kind != "connect" || op.Pkt == nil || op.Pkt.Type != refcodec.CONNECT || op.Pkt.ClientID == "" {
				continue
			}
			var c *Conn
			for _, x := range r.Ex.Conns {
				if x.ConnectOp == oi {
					c = x
				}
			}
			if c == nil {
				continue
			}
			ca := connack(c)
			if ca == nil || ca.P.ReasonCode != 0 {
				continue
			}
			id := op.Pkt.ClientID
			st := S[id]
			if st == nil {
				st = &c14State{}
				S[id] = st
			}
			overlapping := touch[id] > 1
			// a live, non-persistent session being taken over with clean start 0 is left to either reading
			// ("the current session" vs "no stored session")
			liveNonPersistent := st.live != nil && !st.persistent
			if !overlapping && !st.ambiguous && !timeMoved && w.Complete && !(liveNonPersistent && !op.Pkt.CleanStart) {
				want := st.exists && !op.Pkt.CleanStart
				if ca.P.SessionPresent != want {
					prior := "none"
					if st.exists {
						prior = "exists"
					}
					out = append(out, viol("C14", "session-present", fmt.Sprintf("conn %d: CONNECT id=%q clean=%v (v%d): Session Present is %v, expected %v (prior session: %s)", c.Idx, id, op.Pkt.CleanStart, c.Ver, ca.P.SessionPresent, want, prior), ca.Seq,
						"got", fmt.Sprint(ca.P.SessionPresent), "clean", fmt.Sprint(op.Pkt.CleanStart), "ver", verClass(c.Ver), "prior", prior))
				}
			}
			// takeover of a live connection
			wasAmbiguous := st.ambiguous
			st.ambiguous = overlapping
			if old := st.live; old != nil && old != c && w.Complete && !overlapping && !wasAmbiguous {
				bc := brokerCloseSeq(r.H, old.Idx)
				pc := peerCloseSeq(r.H, old.Idx)
				if (bc < 0 || bc > w.EndSeq) && (pc < 0 || pc > w.EndSeq) {
					out = append(out, viol("C14", "old-connection-not-closed", fmt.Sprintf("conn %d took over client id %q but the old connection %d is still open at quiescence", c.Idx, id, old.Idx), w.EndSeq, "oldver", verClass(old.Ver)))
				}
				if old.Ver == 5 && !overlapping {
					// its last packets: DISCONNECT 0x8E, then nothing
					discAt := -1
					for i, pr := range old.Pkts {
						if pr.P.Type == refcodec.DISCONNECT && pr.Seq >= w.StartSeq {
							discAt = i
							if pr.P.ReasonCode != 0x8E {
								out = append(out, viol("C14", "takeover-disconnect-code", fmt.Sprintf("old connection %d (MQTT 5) got DISCONNECT 0x%02x on takeover, expected 0x8E", old.Idx, pr.P.ReasonCode), pr.Seq, "code", fmt.Sprintf("0x%02x", pr.P.ReasonCode)))
							}
							break
						}
					}
					if discAt < 0 && (pc < 0 || pc > w.EndSeq) {
						out = append(out, viol("C14", "takeover-disconnect-missing", fmt.Sprintf("old connection %d (MQTT 5) was taken over without a DISCONNECT packet", old.Idx), w.EndSeq))
					}
				}
				for i, pr := range old.Pkts {
					if pr.P.Type == refcodec.DISCONNECT && pr.Seq >= w.StartSeq && i+1 < len(old.Pkts) {
						nx := old.Pkts[i+1]
						out = append(out, viol("C14", "packet-after-takeover-disconnect", fmt.Sprintf("old connection %d received %s after its takeover DISCONNECT", old.Idx, nx.P), nx.Seq, "type", refcodec.TypeNames[nx.P.Type]))
						break
					}
				}
			}
			st.exists = true
			exp, _ := m.effExpiry(op.Pkt)
			if op.Pkt.ProtoVer == 5 {
				st.persistent = exp > 0
			} else {
				st.persistent = !op.Pkt.CleanStart
			}
			st.live = c
		}
		// invariant at quiescence: at most one open, established connection per client identifier
		if w.Complete {
			open := map[string][]int{}
			for _, c := range r.Ex.Conns {
				ca := connack(c)
				if ca == nil || ca.P.ReasonCode != 0 || ca.Seq > w.EndSeq || c.CID == "" {
					continue
				}
				bc, pc := brokerCloseSeq(r.H, c.Idx), peerCloseSeq(r.H, c.Idx)
				if (bc >= 0 && bc <= w.EndSeq) || (pc >= 0 && pc <= w.EndSeq) {
					continue
				}
				open[c.CID] = append(open[c.CID], c.Idx)
			}
			for id, cs := range open {
				if len(cs) > 1 && !reported2[id] {
					reported2[id] = true
					out = append(out, viol("C14", "two-live-connections-same-id", fmt.Sprintf("at quiescence (seq %d) connections %v are all established and open with client id %q", w.EndSeq, cs, id), w.EndSeq,
						"concurrent_connects", fmt.Sprint(touch[id] > 1)))
				}
			}
		}
		// DISCONNECT may change the expiry
		for _, oi := range w.Ops {
			op := &r.Plan.Ops[oi]
			if op.Kind == "disconnect" && op.Pkt != nil {
				if c := m.connOfOp(oi); c != nil && c.Ver == 5 {
					if st := S[c.CID]; st != nil && st.live == c {
						if p, ok := op.Pkt.Props.Get(refcodec.PSessionExpiry); ok && !(p.Int > 0 && !st.persistent) {
							st.persistent = p.Int > 0
						}
					}
				}
			}
		}
		for _, e := range r.H.Evs {
			if e.Seq >= w.StartSeq && e.Seq <= w.EndSeq && e.Kind == "close" && e.Conn >= 0 {
				c := r.Ex.Conns[e.Conn]
				if st := S[c.CID]; st != nil && st.live == c {
					st.live = nil
					if !st.persistent {
						st.exists = false
					}
				}
			}
		}
		m.Apply(w)
	}
	// "a resumed session keeps every subscription and unacknowledged message; with clean start nothing survives"
	for _, v := range checkDelivery(r, "C03") {
		if v.Class == "missing-delivery" && strings.HasPrefix(v.Features["session"], "resumed") && v.Features["nolocal"] != "mixed" {
			v.Property, v.Class = "C14", "resumed-subscription-lost"
			out = append(out, v)
		}
		if v.Class == "unexpected-delivery" && strings.HasPrefix(v.Features["session"], "fresh") {
			v.Property, v.Class = "C14", "state-survived-clean-start"
			out = append(out, v)
		}
	}
	for _, v := range checkOutboundFlows(r, "C09") {
		switch v.Class {
		case "unacked-publish-not-redelivered", "pubrel-not-resent":
			v.Property, v.Class = "C14", "resumed-inflight-lost"
			out = append(out, v)
		case "resent-into-new-session":
			v.Property, v.Class = "C14", "state-survived-clean-start"
			out = append(out, v)
		}
	}
	return out
}

func genC14(t *Tape) *Plan {
	k := DefaultKnobs()
	k.Slots = 4
	k.IDs = []string{"a", "b", "a", "a"}
	k.Topics = []string{"t", "t/a"}
	k.Filters = []string{"t", "t/#", "#"}
	k.Ops = 18
	k.WConnect, k.WSub, k.WUnsub, k.WPub, k.WDisc, k.WDrop = 6, 3, 1, 6, 2, 2
	k.CleanPct = 35
	k.V5Pct = 55
	k.ExpiryChoices = []uint32{0xFFFFFFFF, 0, 300, 300}
	k.QosW = [3]int{2, 3, 2}
	k.SubQosW = [3]int{1, 3, 2}
	k.ConcPct = []int{0, 25, 50}[t.Draw("c14.conc", 3)]
	k.ManualAckPct = 30
	g := NewGen(t, &k, "C14")
	cfg := &g.plan.Cfg
	baseSched(t, cfg)
	if t.Draw("c14.focus", 3) > 0 {
		cfg.ArmMode = 3
		cfg.ArmFocus = []string{"inheritClientSession", "attachClient", "DisconnectClient", "UnsubscribeClient"}
		cfg.HoldPct = []int{0, 20, 40}[t.Draw("c14.hold", 3)]
		cfg.HoldMax = 16
		if cfg.Strategy == 0 {
			cfg.Strategy = 2
		}
	}
	return g.Run()
}

func relevantC14(r *Result) (bool, []string) {
	var probes []string
	n := 0
	ids := map[string]int{}
	for _, c := range r.Ex.Conns {
		if ca := connack(c); ca != nil && ca.P.ReasonCode == 0 {
			ids[c.CID]++
			if ca.P.SessionPresent {
				probes = append(probes, "session-present-1")
			}
		}
	}
	for _, k := range ids {
		if k >= 2 {
			n++
		}
	}
	for _, e := range r.H.Evs {
		if e.Kind == "pkt" && e.Pkt != nil && e.Pkt.Type == refcodec.DISCONNECT && e.Pkt.ReasonCode == 0x8E {
			probes = append(probes, "takeover-0x8E")
		}
	}
	return n >= 1, probes
}

// ---------------------------------------------------------------------------------------------------
// C09 / C10 / C11 / C12: QoS flows towards a subscriber that disconnects, holds acks, collides ids

func genFlow(t *Tape, name string) *Plan {
	k := DefaultKnobs()
	k.Slots = 3
	k.IDs = []string{"s", "p", "q"}
	k.Topics = []string{"t", "u"}
	k.Filters = []string{"t", "#", "u"}
	k.Ops = 24
	k.WConnect, k.WSub, k.WUnsub, k.WPub, k.WDisc, k.WDrop, k.WAck = 2, 2, 0, 10, 1, 2, 5
	k.CleanPct = 15
	k.V5Pct = 60
	k.ExpiryChoices = []uint32{300}
	k.QosW = [3]int{1, 4, 3}
	k.SubQosW = [3]int{0, 3, 3}
	k.ManualAckPct = 60
	k.RecvMaxChoices = []uint16{0, 0, 1, 2}
	g := NewGen(t, &k, name)
	cfg := &g.plan.Cfg
	baseSched(t, cfg)
	switch name {
	case "C10":
		cfg.MaxPacketID = []uint32{0, 3, 5}[t.Draw("c10.maxpid", 3)]
		for _, s := range g.slots {
			s.nextPID = 0 // the client's own ids start at 1, like the broker's: collisions
		}
		k.WPub = 12
		k.ConcPct = []int{0, 30, 60}[t.Draw("c10.conc", 3)] // several publishers delivering to one subscriber at once
	case "C11":
		cfg.ReceiveMax = uint16(1 + t.Draw("c11.srm", 4))
		k.RecvMaxChoices = []uint16{1, 2, 3}
		k.V5Pct = 85
		k.ManualAckPct = 50
		k.WDrop, k.WDisc = 0, 0
		k.ConcPct = []int{0, 30}[t.Draw("c11.conc", 2)]
		if t.Draw("c11.reconnect", 3) == 0 {
			// the limits also hold for a session that is resumed or taken over with messages in flight, possibly
			// with another Receive Maximum than before
			k.WDrop, k.WDisc, k.WConnect = 2, 1, 5
			k.CleanPct = 10
		}
	case "C12":
		k.Slots = 3
		k.RecvMaxChoices = []uint16{0, 1, 2}
		k.WPub = 14
		cfg.MapOrder = true
		k.Topics = []string{"t", "u"}
		// small write buffers and payloads of mixed sizes: packets below and above the buffer size in one stream
		cfg.WriteBuf = []int{0, 16, 32, 64}[t.Draw("c12.writebuf", 4)]
		cfg.WritesPending = []int32{0, 4, 8}[t.Draw("c12.wp", 3)]
		k.PadMax = 90
	case "C09":
		k.ConcPct = []int{0, 0, 25}[t.Draw("c09.conc", 3)]
		if t.Draw("c09.failwrite", 2) == 0 {
			k.WFailWrite = 3 // the connection is lost while the broker writes a reply (e.g. PUBREL after PUBREC)
		}
	}
	// subscriber first
	g.Connect(0)
	g.Subscribe(0)
	c12shape := -1
	if name == "C12" {
		c12shape = t.Draw("c12.shape", 4)
	}
	if c12shape == 1 {
		// held-back-then-resumed skeleton: an MQTT 5 subscriber with a small Receive Maximum leaves deliveries
		// unacknowledged, so that later messages of the same publisher are held back by flow control; it loses the
		// connection and resumes the session while they are held; the publisher sends more before the subscriber
		// says anything; then the subscriber acknowledges one by one. First transmissions stay in publish order.
		first := len(g.plan.Ops)
		rm := uint32(1 + t.Draw("c12.rm", 2))
		fix := func(p *refcodec.Packet) {
			p.ProtoVer = 5
			p.CleanStart = false
			var props refcodec.Props
			for _, pr := range p.Props {
				if pr.ID != refcodec.PReceiveMaximum && pr.ID != refcodec.PSessionExpiry {
					props = append(props, pr)
				}
			}
			p.Props = append(props, refcodec.Prop{ID: refcodec.PReceiveMaximum, Int: rm}, refcodec.Prop{ID: refcodec.PSessionExpiry, Int: 300})
		}
		for i := range g.plan.Ops {
			if g.plan.Ops[i].Kind == "subscribe" && g.plan.Ops[i].Pkt != nil && len(g.plan.Ops[i].Pkt.Filters) > 0 {
				g.plan.Ops[i].Pkt.Filters[0].Filter = "#"
				g.plan.Ops[i].Pkt.Filters[0].Opts = g.plan.Ops[i].Pkt.Filters[0].Opts&^3 | 1
				g.plan.Ops[i].Pkt.Props = nil
				g.plan.Ops[i].Ver = 5
			}
			if g.plan.Ops[i].Kind == "connect" && g.plan.Ops[i].Pkt != nil {
				fix(g.plan.Ops[i].Pkt)
				g.plan.Ops[i].AckMode = 1
			}
		}
		g.slots[0].ver = 5
		g.Connect(1)
		pub := func() {
			pi := g.Publish(1)
			g.plan.Ops[pi].Pkt.Topic = "t"
			if g.plan.Ops[pi].Pkt.Qos == 0 {
				g.plan.Ops[pi].Pkt.Qos = 1
				g.plan.Ops[pi].Pkt.PacketID = g.pid(1)
			}
			g.plan.Ops[pi].Pkt.Qos = 1
		}
		for i, n := 0, int(rm)+1+t.Draw("c12.held", 2); i < n; i++ {
			pub()
		}
		g.Drop(0)
		ci := g.Connect(0)
		fix(g.plan.Ops[ci].Pkt)
		g.plan.Ops[ci].AckMode = 1
		for i, n := 0, 1+t.Draw("c12.after", 2); i < n; i++ {
			pub()
		}
		for i, n := 0, 2+t.Draw("c12.acks", 4); i < n; i++ {
			g.add(Op{Kind: "ack", Slot: 0, N: 0})
		}
		g.add(Op{Kind: "advance", Ms: 10})
		for i := first; i < len(g.plan.Ops); i++ {
			g.plan.Ops[i].Concurrent = false
		}
	}
	if c12shape == 0 {
		// backlog skeleton: the subscriber stops reading, one publisher sends a burst on one topic (sizes on both
		// sides of the write buffer), the subscriber reads again; the random tail follows
		first := len(g.plan.Ops)
		for i := range g.plan.Ops {
			if g.plan.Ops[i].Kind == "subscribe" && g.plan.Ops[i].Pkt != nil && len(g.plan.Ops[i].Pkt.Filters) > 0 {
				g.plan.Ops[i].Pkt.Filters[0].Filter = "#"
			}
		}
		g.Connect(1)
		g.add(Op{Kind: "stall", Slot: 0})
		for i, n := 0, 3+t.Draw("c12.burst", 4); i < n; i++ {
			pi := g.Publish(1)
			g.plan.Ops[pi].Pkt.Topic = "t"
		}
		g.add(Op{Kind: "unstall", Slot: 0})
		g.add(Op{Kind: "advance", Ms: 10})
		for i := first; i < len(g.plan.Ops); i++ {
			g.plan.Ops[i].Concurrent = false
		}
	}
	if name == "C10" && t.Draw("c10.shape", 4) == 0 {
		// slow-acknowledgement skeleton: a persistent subscriber that is slow to read publishes a QoS 1/2 message of
		// its own, with the identifier the broker would use next for a delivery to it; while the broker is still
		// writing the acknowledgement another client publishes to the subscriber; then the subscriber reads again,
		// leaves the delivery unacknowledged, loses the connection and resumes. The two identifier spaces are
		// independent: the delivery is owed to the resumed session.
		first := len(g.plan.Ops)
		for i := range g.plan.Ops {
			if g.plan.Ops[i].Kind == "subscribe" && g.plan.Ops[i].Pkt != nil && len(g.plan.Ops[i].Pkt.Filters) > 0 {
				g.plan.Ops[i].Pkt.Filters[0].Filter = "#"
				g.plan.Ops[i].Pkt.Filters[0].Opts = g.plan.Ops[i].Pkt.Filters[0].Opts&^3 | 1
			}
			if g.plan.Ops[i].Kind == "connect" && g.plan.Ops[i].Pkt != nil {
				g.plan.Ops[i].Pkt.CleanStart = false
				g.plan.Ops[i].AckMode = 1
			}
		}
		g.Connect(1)
		g.add(Op{Kind: "stall", Slot: 0})
		own := g.Publish(0)
		if g.plan.Ops[own].Pkt.Qos == 0 {
			g.plan.Ops[own].Pkt.Qos = byte(1 + t.Draw("c10.ownqos", 2))
			g.plan.Ops[own].Pkt.PacketID = g.pid(0)
		}
		for i, n := 0, 1+t.Draw("c10.nother", 2); i < n; i++ {
			pi := g.Publish(1)
			if g.plan.Ops[pi].Pkt.Qos == 0 {
				g.plan.Ops[pi].Pkt.Qos = 1
				g.plan.Ops[pi].Pkt.PacketID = g.pid(1)
			}
		}
		g.add(Op{Kind: "unstall", Slot: 0})
		g.add(Op{Kind: "advance", Ms: 10})
		g.Drop(0)
		ci := g.Connect(0)
		g.plan.Ops[ci].Pkt.CleanStart = false
		g.plan.Ops[ci].AckMode = 1
		for i := first; i < len(g.plan.Ops); i++ {
			g.plan.Ops[i].Concurrent = false
		}
	}
	c09shape := -1
	if name == "C09" {
		c09shape = t.Draw("c09.shape", 6)
	}
	if c09shape == 1 || c09shape == 2 {
		// faulty-resume skeletons: a persistent subscriber holds unacknowledged QoS 1/2 deliveries, loses its connection
		// (or not: then the next connection is a takeover) and resumes the session on a connection that is born
		// faulty. Shape 1: one of the broker's first writes on it (CONNACK or a resend) fails, and the client resumes
		// once more. Shape 2: the broker's writes on it block (the client is slow to read its CONNACK) while another
		// client publishes, then they flow again. Every unacknowledged message is owed to the last connection.
		first := len(g.plan.Ops)
		for i := range g.plan.Ops {
			if g.plan.Ops[i].Kind == "subscribe" && g.plan.Ops[i].Pkt != nil && len(g.plan.Ops[i].Pkt.Filters) > 0 {
				g.plan.Ops[i].Pkt.Filters[0].Filter = "#"
				g.plan.Ops[i].Pkt.Filters[0].Opts = g.plan.Ops[i].Pkt.Filters[0].Opts&^3 | 2
			}
			if g.plan.Ops[i].Kind == "connect" && g.plan.Ops[i].Pkt != nil {
				g.plan.Ops[i].Pkt.CleanStart = false
				g.plan.Ops[i].AckMode = 1
			}
		}
		g.Connect(1)
		npub := 1 + t.Draw("c09.npub", 2)
		for i := 0; i < npub; i++ {
			pi := g.Publish(1)
			if g.plan.Ops[pi].Pkt.Qos == 0 {
				g.plan.Ops[pi].Pkt.Qos = 1
				g.plan.Ops[pi].Pkt.PacketID = g.pid(1)
			}
		}
		if t.Draw("c09.dropfirst", 3) > 0 {
			g.Drop(0)
		}
		ci := g.Connect(0)
		g.plan.Ops[ci].Pkt.CleanStart = false
		g.plan.Ops[ci].AckMode = 1
		if c09shape == 1 {
			g.plan.Ops[ci].Fault = []string{"failwrite", "short"}[t.Draw("c09.bornfault", 2)]
			g.plan.Ops[ci].N = t.Draw("c09.bornfault.n", npub+1)
			ci2 := g.Connect(0)
			g.plan.Ops[ci2].Pkt.CleanStart = false
			g.plan.Ops[ci2].AckMode = 1
		} else {
			g.plan.Ops[ci].Fault = "stall"
			pi := g.Publish(1)
			if g.plan.Ops[pi].Pkt.Qos == 0 {
				g.plan.Ops[pi].Pkt.Qos = 1
				g.plan.Ops[pi].Pkt.PacketID = g.pid(1)
			}
			g.add(Op{Kind: "unstall", Slot: 0})
			g.add(Op{Kind: "advance", Ms: 10})
		}
		for i := first; i < len(g.plan.Ops); i++ {
			g.plan.Ops[i].Concurrent = false
		}
	}
	if c09shape == 0 {
		// lost-reply skeleton: a persistent subscriber acknowledges a QoS 1/2 delivery by hand while the broker's next
		// write on that connection fails (the connection dies between the acknowledgement and the reply), then it
		// resumes the session. What was published, which step of the exchange is hit and the tail are drawn.
		first := len(g.plan.Ops)
		for i := range g.plan.Ops {
			if g.plan.Ops[i].Kind == "subscribe" && g.plan.Ops[i].Pkt != nil && len(g.plan.Ops[i].Pkt.Filters) > 0 {
				g.plan.Ops[i].Pkt.Filters[0].Filter = "#"
				g.plan.Ops[i].Pkt.Filters[0].Opts = g.plan.Ops[i].Pkt.Filters[0].Opts&^3 | 2
			}
			if g.plan.Ops[i].Kind == "connect" && g.plan.Ops[i].Pkt != nil {
				g.plan.Ops[i].Pkt.CleanStart = false
				g.plan.Ops[i].AckMode = 1
			}
		}
		g.Connect(1)
		for i, n := 0, 1+t.Draw("c09.npub", 2); i < n; i++ {
			pi := g.Publish(1)
			if t.Draw("c09.q2", 4) > 0 { // mostly QoS 2: the exchange with a reply (PUBREL) to lose
				g.plan.Ops[pi].Pkt.Qos = 2
				if g.plan.Ops[pi].Pkt.PacketID == 0 {
					g.plan.Ops[pi].Pkt.PacketID = g.pid(1)
				}
			}
		}
		for i, n := 0, t.Draw("c09.acksbefore", 2); i < n; i++ {
			g.add(Op{Kind: "ack", Slot: 0, N: 0})
		}
		g.add(Op{Kind: "failwrite", Slot: 0, N: 0})
		g.add(Op{Kind: "ack", Slot: 0, N: 0})
		g.Drop(0)
		ci := g.Connect(0)
		g.plan.Ops[ci].Pkt.CleanStart = false
		g.plan.Ops[ci].AckMode = 1
		for i := first; i < len(g.plan.Ops); i++ {
			g.plan.Ops[i].Concurrent = false
		}
	}
	if name == "C11" && t.Draw("c11.shape", 4) == 0 {
		// resumed-session skeleton: a client fills the server's Receive Maximum with QoS 2 publishes whose PUBREL it
		// holds back, loses the connection, resumes the session and retransmits one of them (DUP): it is still
		// within the limit and must not be refused. The random tail follows.
		first := len(g.plan.Ops)
		ci := g.Connect(1)
		g.plan.Ops[ci].AckMode = 3
		g.plan.Ops[ci].Pkt.CleanStart = false
		var origs []*refcodec.Packet
		for i := 0; i < int(cfg.ReceiveMax); i++ {
			pi := g.Publish(1)
			g.plan.Ops[pi].Pkt.Qos = 2
			if g.plan.Ops[pi].Pkt.PacketID == 0 {
				g.plan.Ops[pi].Pkt.PacketID = g.pid(1)
			}
			origs = append(origs, g.plan.Ops[pi].Pkt)
		}
		g.Drop(1)
		ci2 := g.Connect(1)
		g.plan.Ops[ci2].AckMode = 3
		g.plan.Ops[ci2].Pkt.CleanStart = false
		g.plan.Ops[ci2].Pkt.ProtoVer = g.plan.Ops[ci].Pkt.ProtoVer
		g.plan.Ops[ci2].Pkt.Props = g.plan.Ops[ci].Pkt.Props
		if len(origs) > 0 {
			cp := *origs[t.Draw("c11.which", len(origs))]
			cp.Dup = true
			g.add(Op{Kind: "publish", Slot: 1, Pkt: &cp, Note: "retransmit"})
		}
		for i := first; i < len(g.plan.Ops); i++ {
			g.plan.Ops[i].Concurrent = false
		}
	}
	return g.Run()
}

func genC09(t *Tape) *Plan { return genFlow(t, "C09") }
func genC10(t *Tape) *Plan { return genFlow(t, "C10") }
func genC11(t *Tape) *Plan { return genFlow(t, "C11") }
func genC12(t *Tape) *Plan { return genFlow(t, "C12") }

func relevantFlow(r *Result) (bool, []string) {
	var probes []string
	nq := 0
	for _, c := range r.Ex.Conns {
		ca := connack(c)
		if ca != nil && ca.P.SessionPresent {
			probes = append(probes, "reconnect-session-present")
		}
		for _, pr := range c.Pkts {
			if pr.P.Type == refcodec.PUBLISH && pr.P.Qos > 0 {
				nq++
				if pr.P.Dup {
					probes = append(probes, "dup-redelivery")
				}
			}
			if pr.P.Type == refcodec.PUBREL {
				probes = append(probes, "pubrel-sent")
			}
		}
	}
	for _, e := range r.H.Evs {
		if e.Kind == "hook" && e.Str == "qos_dropped" {
			probes = append(probes, "qos-dropped")
		}
	}
	return nq >= 2, probes
}

// ---------------------------------------------------------------------------------------------------
// C08

func genC08(t *Tape) *Plan {
	k := DefaultKnobs()
	k.Slots = 3
	k.IDs = []string{"p", "s", "x"}
	k.Topics = []string{"t"}
	k.Filters = []string{"t", "#"}
	k.V5Pct = 60
	k.CleanPct = 0
	k.ExpiryChoices = []uint32{300}
	k.QosW = [3]int{0, 0, 1}
	k.SubQosW = [3]int{1, 1, 2}
	g := NewGen(t, &k, "C08")
	cfg := &g.plan.Cfg
	baseSched(t, cfg)
	// subscribers
	g.Connect(1)
	g.Subscribe(1)
	if t.Draw("c08.sub2", 2) == 1 {
		g.Connect(2)
		g.Subscribe(2)
	}
	// publisher holds back PUBREL
	pubSubs := t.Draw("c08.pubsubs", 2) == 1
	if pubSubs {
		// the publisher is a subscriber too, never acknowledges what it receives, and numbers its own packets from 1
		// like the broker numbers its deliveries to it: identifiers of the two directions meet, which must not
		// disturb the record that recognises a retransmission
		g.slots[0].nextPID = 0
	}
	ci := g.Connect(0)
	g.plan.Ops[ci].AckMode = 3
	if pubSubs {
		si := g.Subscribe(0)
		g.plan.Ops[si].Pkt.Filters = []refcodec.Filter{{Filter: "#", Opts: 1}}
		g.plan.Ops[si].Pkt.Props = nil
		if t.Draw("c08.pubsubs.first", 2) == 1 {
			pi := g.Publish(1) // a delivery to the publisher before its own first publish
			g.plan.Ops[pi].Pkt.Qos = 1
			if g.plan.Ops[pi].Pkt.PacketID == 0 {
				g.plan.Ops[pi].Pkt.PacketID = g.pid(1)
			}
		}
	}
	nmsg := 1 + t.Draw("c08.nmsg", 2)
	for m := 0; m < nmsg; m++ {
		pi := g.Publish(0)
		orig := g.plan.Ops[pi].Pkt
		nre := t.Draw("c08.nre", 3)
		for i := 0; i < nre; i++ {
			if t.Draw("c08.reconnect", 3) == 0 {
				g.Drop(0)
				ci2 := g.Connect(0)
				g.plan.Ops[ci2].AckMode = 3
				g.plan.Ops[ci2].Pkt.CleanStart = false
				g.plan.Ops[ci2].Pkt.ProtoVer = g.plan.Ops[ci].Pkt.ProtoVer
				g.plan.Ops[ci2].Pkt.Props = g.plan.Ops[ci].Pkt.Props
			}
			if t.Draw("c08.other", 3) == 0 {
				g.Publish(1) // other clients' traffic in between
				g.plan.Ops[len(g.plan.Ops)-1].Pkt.Qos = 0
				if pubSubs { // ... which reaches the publisher as a QoS 1 delivery with an identifier of the broker's choosing
					op := &g.plan.Ops[len(g.plan.Ops)-1]
					op.Pkt.Qos = 1
					if op.Pkt.PacketID == 0 {
						op.Pkt.PacketID = g.pid(1)
					}
				}
			}
			cp := *orig
			cp.Dup = true
			g.add(Op{Kind: "publish", Slot: 0, Pkt: &cp, Note: "retransmit"})
		}
		if t.Draw("c08.pubrel", 5) > 0 {
			g.add(Op{Kind: "packet", Slot: 0, Pkt: &refcodec.Packet{Type: refcodec.PUBREL, PacketID: orig.PacketID}})
			if t.Draw("c08.afterrel", 3) == 0 {
				// a retransmission arriving after PUBREL is a new message by the protocol; not generated
			}
		}
	}
	g.plan.Ops[len(g.plan.Ops)-1].Concurrent = false
	return g.plan
}

func relevantC08(r *Result) (bool, []string) {
	var probes []string
	re := 0
	for _, op := range r.Plan.Ops {
		if op.Note == "retransmit" {
			re++
		}
	}
	if re > 0 {
		probes = append(probes, "retransmission")
	}
	for _, c := range r.Ex.Conns {
		for _, pr := range c.Pkts {
			if pr.P.Type == refcodec.PUBCOMP {
				probes = append(probes, "pubcomp")
			}
		}
		if ca := connack(c); ca != nil && ca.P.SessionPresent {
			probes = append(probes, "reconnected-with-session")
		}
	}
	return re > 0, probes
}

func init() {
	register(&Profile{Name: "C08", Gen: genC08, Check: checkC08, Relevant: relevantC08})
	register(&Profile{Name: "C09", Gen: genC09, Check: checkC09, Relevant: relevantFlow})
	register(&Profile{Name: "C10", Gen: genC10, Check: checkC10, Relevant: relevantFlow})
	register(&Profile{Name: "C11", Gen: genC11, Check: checkC11, Relevant: relevantFlow})
	register(&Profile{Name: "C12", Gen: genC12, Check: checkC12, Relevant: relevantFlow})
	register(&Profile{Name: "C14", Gen: genC14, Check: checkC14, Relevant: relevantC14})
}
