package harness

import (
	"fmt"
	"regexp"
	"sort"
	"strings"

	"verifharness/refcodec"
)

// ---------------------------------------------------------------------------------------------------
// helpers over the recorded history

// SentRec is one client packet that was completely delivered to the broker.
type SentRec struct {
	P   *refcodec.Packet
	Op  int
	Seq int // seq of the delivery of its last byte (invoke)
}

func verOK(c *Conn, r *Result) bool {
	op := r.Plan.Ops[c.ConnectOp]
	if op.Pkt == nil || op.Pkt.Type != refcodec.CONNECT {
		return false
	}
	p := op.Pkt
	switch p.ProtoVer {
	case 3:
		return p.ProtoName == "" || p.ProtoName == "MQIsdp"
	case 4, 5:
		return p.ProtoName == "" || p.ProtoName == "MQTT"
	}
	return false
}

func connectPkt(c *Conn, r *Result) *refcodec.Packet {
	return r.Plan.Ops[c.ConnectOp].Pkt
}

func firstQuiesceAfter(h *History, seq int) int {
	for _, e := range h.Evs[seq+1:] {
		if e.Kind == "quiesce" {
			return e.Seq
		}
	}
	return -1
}

// firstFlowingQuiesceAfter is the first quiescent point after seq at which the broker's writes to connection
// conn are not held by an injected stall (while they are, "quiescent" only means that nothing can move and an
// owed answer cannot be written). -1 if there is none.
func firstFlowingQuiesceAfter(h *History, conn int, seq int) int {
	stalled := false
	for _, e := range h.Evs {
		if e.Conn == conn {
			switch e.Kind {
			case "stall-on":
				stalled = true
			case "stall-off", "close":
				stalled = false
			}
		}
		if e.Seq > seq && e.Kind == "quiesce" && !stalled {
			return e.Seq
		}
	}
	return -1
}

func peerCloseSeq(h *History, conn int) int {
	for _, e := range h.Evs {
		if e.Kind == "close" && e.Conn == conn && e.Str != "broker" {
			return e.Seq
		}
	}
	return -1
}

func brokerCloseSeq(h *History, conn int) int {
	for _, e := range h.Evs {
		if e.Kind == "close" && e.Conn == conn && e.Str == "broker" {
			return e.Seq
		}
	}
	return -1
}

// sentPackets reconstructs, per connection, the client packets whose last byte was delivered.
func sentPackets(r *Result) map[int][]SentRec {
	out := map[int][]SentRec{}
	// client packets are re-decoded from what was enqueued: track per conn the order of (op) deliveries
	type key struct{ conn, op int }
	for _, e := range r.H.Evs {
		if e.Kind == "in" && e.Last {
			out[e.Conn] = append(out[e.Conn], SentRec{Op: e.Op, Seq: e.Seq, P: e.Pkt})
		}
	}
	return out
}

var frameRe = regexp.MustCompile(`github\.com/mochi-mqtt/server/v2(?:/[a-z/]+)?\.([A-Za-z0-9_\(\)\*\.]+)\(`)

func brokerFrame(stack string) string {
	for _, ln := range strings.Split(stack, "\n") {
		if strings.Contains(ln, "/verifsim.") {
			continue
		}
		if m := frameRe.FindStringSubmatch(ln); m != nil {
			return m[1]
		}
	}
	return "?"
}

// ---------------------------------------------------------------------------------------------------
// C23: everything the broker writes is well-formed for the client's protocol version

func checkC23(r *Result) []Violation {
	var out []Violation
	for _, c := range r.Ex.Conns {
		if !verOK(c, r) {
			continue
		}
		cp := connectPkt(c, r)
		for _, e := range r.H.Evs {
			if e.Kind == "malformed" && e.Conn == c.Idx {
				out = append(out, viol("C23", "malformed", fmt.Sprintf("conn %d (v%d): %s", c.Idx, c.Ver, e.Str), e.Seq, "ver", verClass(c.Ver), "what", malformedClass(e.Str)))
			}
		}
		var maxPkt uint32
		problemOff := false
		respInfo := false
		if c.Ver == 5 {
			if p, ok := cp.Props.Get(refcodec.PMaximumPacketSize); ok {
				maxPkt = p.Int
			}
			if p, ok := cp.Props.Get(refcodec.PRequestProblem); ok && p.Int == 0 {
				problemOff = true
			}
			if p, ok := cp.Props.Get(refcodec.PRequestResponse); ok && p.Int == 1 {
				respInfo = true
			}
		}
		seenDisc := false
		for _, pr := range c.Pkts {
			p := pr.P
			tn := refcodec.TypeNames[p.Type]
			if seenDisc {
				out = append(out, viol("C23", "after-disconnect", fmt.Sprintf("conn %d: %s written after DISCONNECT", c.Idx, p), pr.Seq, "type", tn))
			}
			if p.Type == refcodec.DISCONNECT {
				seenDisc = true
			}
			switch p.Type {
			case refcodec.CONNECT, refcodec.SUBSCRIBE, refcodec.UNSUBSCRIBE, refcodec.PINGREQ:
				out = append(out, viol("C23", "client-only-type", fmt.Sprintf("conn %d: broker wrote %s", c.Idx, p), pr.Seq, "type", tn))
			}
			if c.Ver < 5 {
				switch p.Type {
				case refcodec.DISCONNECT, refcodec.AUTH:
					out = append(out, viol("C23", "v3-reserved-type", fmt.Sprintf("conn %d (MQTT %d): broker wrote %s, a packet type MQTT 3 reserves for clients", c.Idx, c.Ver, p), pr.Seq, "type", tn))
				case refcodec.CONNACK:
					if p.ReasonCode > 5 {
						out = append(out, viol("C23", "v3-connack-code", fmt.Sprintf("conn %d (MQTT %d): CONNACK return code 0x%02x", c.Idx, c.Ver, p.ReasonCode), pr.Seq, "code", fmt.Sprintf("0x%02x", p.ReasonCode)))
					}
				case refcodec.SUBACK:
					for _, rc := range p.ReasonCodes {
						if rc > 2 && rc != 0x80 {
							out = append(out, viol("C23", "v3-suback-code", fmt.Sprintf("conn %d (MQTT %d): SUBACK code 0x%02x", c.Idx, c.Ver, rc), pr.Seq, "code", fmt.Sprintf("0x%02x", rc)))
						}
					}
				}
			}
			if maxPkt > 0 && uint32(pr.Size) > maxPkt {
				out = append(out, viol("C23", "oversize", fmt.Sprintf("conn %d: %s is %d bytes, client Maximum Packet Size %d", c.Idx, p, pr.Size, maxPkt), pr.Seq, "type", tn))
			}
			if p.Type == refcodec.PUBLISH && strings.ContainsAny(p.Topic, "+#") {
				out = append(out, viol("C23", "wildcard-topic", fmt.Sprintf("conn %d: outbound PUBLISH topic %q", c.Idx, p.Topic), pr.Seq))
			}
			if problemOff {
				switch p.Type {
				case refcodec.PUBACK, refcodec.PUBREC, refcodec.PUBREL, refcodec.PUBCOMP, refcodec.SUBACK, refcodec.UNSUBACK, refcodec.AUTH:
					if p.Props.Has(refcodec.PReasonString) || p.Props.Has(refcodec.PUserProperty) {
						out = append(out, viol("C23", "problem-info", fmt.Sprintf("conn %d: %s carries reason string / user property although Request Problem Information = 0", c.Idx, p), pr.Seq, "type", tn))
					}
				}
			}
			if p.Type == refcodec.CONNACK && !respInfo && p.Props.Has(refcodec.PResponseInfo) {
				out = append(out, viol("C23", "response-info", fmt.Sprintf("conn %d: CONNACK carries response information that was not requested", c.Idx), pr.Seq))
			}
		}
	}
	return out
}

func verClass(v byte) string {
	if v == 5 {
		return "5"
	}
	return "3"
}

func malformedClass(s string) string {
	switch {
	case strings.Contains(s, "trailing bytes"):
		return strings.SplitN(s, ":", 2)[0] + "-trailing-bytes"
	case strings.Contains(s, "not allowed in packet"):
		return "property-not-allowed"
	case strings.Contains(s, "reserved flags"):
		return "reserved-flags"
	case strings.Contains(s, "truncated"):
		return "truncated"
	case strings.Contains(s, "reserved packet type"):
		return "reserved-type"
	}
	if i := strings.Index(s, ":"); i > 0 {
		return s[:i] + "-other"
	}
	return "other"
}

// ---------------------------------------------------------------------------------------------------
// C32 (always on): the scheduler saw a deadlock, or a task requested a read lock it already holds

var siteFuncRe = regexp.MustCompile(`:([A-Za-z0-9_]+):sync:`)

func checkC32(r *Result) []Violation {
	var out []Violation
	if d := r.Ex.Deadlock; d != nil && !d.OnlyWG {
		var fns []string
		seen := map[string]bool{}
		for _, t := range d.Tasks {
			if m := siteFuncRe.FindStringSubmatch(t); m != nil && !seen[m[1]] {
				seen[m[1]] = true
				fns = append(fns, m[1])
			}
		}
		sort.Strings(fns)
		out = append(out, viol("C32", "deadlock", "tasks blocked forever: "+strings.Join(d.Tasks, " ; "), r.H.Len()-1, "waiting_in", strings.Join(fns, "+")))
	}
	seen := map[string]bool{}
	for _, e := range r.Ex.Reentrant {
		fn := "?"
		if m := siteFuncRe.FindStringSubmatch(e.Text); m != nil {
			fn = m[1]
		}
		if seen[fn] {
			continue
		}
		seen[fn] = true
		out = append(out, viol("C32", "reentrant-rlock", fmt.Sprintf("task %s requested a read lock it already holds at %s", e.Task, e.Text), -1, "func", fn))
	}
	return out
}

// checkPanics: a panic in any broker goroutine (C28; C27 when the profile is the decoder profile).
func checkPanics(r *Result) []Violation {
	var out []Violation
	for _, e := range r.Ex.Panics {
		out = append(out, viol("C28", "panic", fmt.Sprintf("task %s panicked: %s\n%s", e.Task, e.Text, clipStr(e.Stack, 1500)), -1, "in", brokerFrame(e.Stack)))
	}
	return out
}

func clipStr(s string, n int) string {
	if len(s) > n {
		return s[:n]
	}
	return s
}

// ---------------------------------------------------------------------------------------------------
// C13: connections start with one CONNACK and only authenticated clients are admitted

// validConnect is the reference predicate for "a valid CONNECT" (MQTT 3.1.1 §3.1 / MQTT 5 §3.1).
func validConnect(p *refcodec.Packet) bool {
	if p == nil || p.Type != refcodec.CONNECT {
		return false
	}
	name := p.ProtoName
	switch p.ProtoVer {
	case 3:
		if name != "" && name != "MQIsdp" {
			return false
		}
	case 4, 5:
		if name != "" && name != "MQTT" {
			return false
		}
	default:
		return false
	}
	if p.ConnReserved {
		return false
	}
	if p.Will != nil && p.Will.Qos > 2 {
		return false
	}
	if p.ProtoVer < 5 {
		if p.HasPassword && !p.HasUsername {
			return false
		}
		if p.ClientID == "" && !p.CleanStart {
			return false
		}
	}
	if p.Will != nil {
		if p.Will.Topic == "" || strings.ContainsAny(p.Will.Topic, "+#") {
			return false
		}
	}
	if !refcodec.ValidUTF8(p.ClientID) {
		return false
	}
	return true
}

func authAllows(r *Result, p *refcodec.Packet) bool {
	cfg := &r.Plan.Cfg
	allow := false
	switch cfg.Auth {
	case "allow":
		allow = true
	case "perm":
		allow = true
		for _, d := range cfg.DenyConnect {
			if d == p.ClientID {
				allow = false
			}
		}
	}
	for _, h := range cfg.Hooks {
		if h.Auth == "allow" {
			allow = true
		}
	}
	return allow
}

func checkC13(r *Result) []Violation {
	var out []Violation
	validSession := map[string]bool{}
	for _, c := range r.Ex.Conns {
		op := r.Plan.Ops[c.ConnectOp]
		cp := op.Pkt
		isConnect := cp != nil && cp.Type == refcodec.CONNECT && op.Raw == nil
		valid := isConnect && validConnect(cp) && op.Note != "invalid"
		nConnack := 0
		for i, pr := range c.Pkts {
			if pr.P.Type == refcodec.CONNACK {
				nConnack++
				if i != 0 {
					out = append(out, viol("C13", "packet-before-connack", fmt.Sprintf("conn %d: %s written before CONNACK", c.Idx, c.Pkts[0].P), c.Pkts[0].Seq,
						"first", refcodec.TypeNames[c.Pkts[0].P.Type], "session", sessClass(r, c)))
				}
				if nConnack > 1 {
					out = append(out, viol("C13", "second-connack", fmt.Sprintf("conn %d: CONNACK sent twice", c.Idx), pr.Seq))
				}
				if pr.P.ReasonCode == 0 {
					if !valid {
						out = append(out, viol("C13", "invalid-connect-admitted", fmt.Sprintf("conn %d: success CONNACK for an invalid first packet / CONNECT %v", c.Idx, cp), pr.Seq, "why", invalidWhy(cp, op)))
					} else if !authAllows(r, cp) {
						out = append(out, viol("C13", "unauthenticated-admitted", fmt.Sprintf("conn %d: success CONNACK although no authentication hook allows client %q (auth=%s)", c.Idx, cp.ClientID, r.Plan.Cfg.Auth), pr.Seq, "auth", r.Plan.Cfg.Auth))
					} else {
						validSession[cp.ClientID] = true
					}
					if pr.P.SessionPresent && !validSession[cp.ClientID] {
						// handled by C14; here only the "invalid CONNECT never yields a session" half
					}
				}
			}
		}
		if len(c.Pkts) > 0 && nConnack == 0 && verOK(c, r) {
			out = append(out, viol("C13", "no-connack-first", fmt.Sprintf("conn %d: first packet written is %s, no CONNACK at all", c.Idx, c.Pkts[0].P), c.Pkts[0].Seq,
				"first", refcodec.TypeNames[c.Pkts[0].P.Type]))
		}
		if !valid && isConnect {
			// closed by the broker by the quiescence that follows the CONNECT
			inv := -1
			for _, e := range r.H.Evs {
				if e.Kind == "in" && e.Conn == c.Idx && e.Op == c.ConnectOp && e.Last {
					inv = e.Seq
				}
			}
			if inv >= 0 {
				q := firstQuiesceAfter(r.H, inv)
				pc := peerCloseSeq(r.H, c.Idx)
				bc := brokerCloseSeq(r.H, c.Idx)
				if q >= 0 && (pc < 0 || pc > q) && (bc < 0 || bc > q) {
					out = append(out, viol("C13", "invalid-connect-not-closed", fmt.Sprintf("conn %d: invalid CONNECT %v but the connection is still open at quiescence", c.Idx, cp), q, "why", invalidWhy(cp, op)))
				}
			}
		}
	}
	// an invalid CONNECT never yields a session: a later clean-start-0 connection must not find one
	// (only ids that never had a valid session are judged)
	// A connection with the same id that was opened before this CONNACK was written and that was (ever) admitted
	// explains a session (two concurrent CONNECTs with one id may be served in either order); only when every
	// earlier connection with the id was refused can the session have come from an invalid CONNECT.
	admittedConn := func(c *Conn) bool {
		for _, pr := range c.Pkts {
			if pr.P.Type == refcodec.CONNACK && pr.P.ReasonCode == 0 {
				return true
			}
		}
		return false
	}
	for _, c := range r.Ex.Conns {
		op := r.Plan.Ops[c.ConnectOp]
		cp := op.Pkt
		if cp == nil || cp.Type != refcodec.CONNECT || !(validConnect(cp) && op.Note != "invalid" && authAllows(r, cp)) {
			continue
		}
		for _, pr := range c.Pkts {
			if pr.P.Type != refcodec.CONNACK || pr.P.ReasonCode != 0 || !pr.P.SessionPresent {
				continue
			}
			explained, refusedBefore := false, false
			for _, c2 := range r.Ex.Conns {
				op2 := r.Plan.Ops[c2.ConnectOp]
				if c2 == c || op2.Pkt == nil || op2.Pkt.Type != refcodec.CONNECT || op2.Pkt.ClientID != cp.ClientID || c2.openSeq > pr.Seq {
					continue
				}
				if admittedConn(c2) || (validConnect(op2.Pkt) && op2.Note != "invalid" && authAllows(r, op2.Pkt)) {
					// admitted, or valid and merely overtaken before its CONNACK was written (a C13/C14 takeover finding)
					explained = true
				} else {
					refusedBefore = true
				}
			}
			if !explained && refusedBefore {
				out = append(out, viol("C13", "session-from-invalid-connect", fmt.Sprintf("conn %d: session present for %q although only refused connections used that id before", c.Idx, cp.ClientID), pr.Seq))
			}
		}
	}
	return out
}

func sessClass(r *Result, c *Conn) string {
	for _, pr := range c.Pkts {
		if pr.P.Type == refcodec.CONNACK {
			if pr.P.SessionPresent {
				return "resumed"
			}
			return "new"
		}
	}
	return "none"
}

func invalidWhy(p *refcodec.Packet, op Op) string {
	if op.Note == "invalid" {
		return "generated-invalid"
	}
	if p == nil {
		return "not-connect"
	}
	switch {
	case p.Type != refcodec.CONNECT:
		return "first-not-connect"
	case p.ConnReserved:
		return "reserved-flag"
	case p.ProtoVer < 3 || p.ProtoVer > 5:
		return "bad-version"
	case p.ProtoVer < 5 && p.HasPassword && !p.HasUsername:
		return "password-without-username"
	case p.ProtoVer < 5 && p.ClientID == "" && !p.CleanStart:
		return "empty-id-clean0"
	case p.Will != nil && (p.Will.Topic == "" || strings.ContainsAny(p.Will.Topic, "+#")):
		return "will-topic"
	case p.Will != nil && p.Will.Qos > 2:
		return "will-qos3"
	}
	return "bad-name"
}

// ---------------------------------------------------------------------------------------------------
// C07: every request that requires a response gets one

func checkC07(r *Result) []Violation {
	var out []Violation
	sent := sentPackets(r)
	for _, c := range r.Ex.Conns {
		if !verOK(c, r) {
			continue
		}
		// established?
		established := false
		for _, pr := range c.Pkts {
			if pr.P.Type == refcodec.CONNACK && pr.P.ReasonCode == 0 {
				established = true
			}
		}
		if !established {
			continue
		}
		pc := peerCloseSeq(r.H, c.Idx)
		bc := brokerCloseSeq(r.H, c.Idx)
		// Pair responses with requests. With repeated packet identifiers a response may belong to several
		// requests; each response is given to the latest still-unanswered request that precedes it, so that
		// an earlier request is reported as unanswered only if there really are fewer responses than requests.
		answeredBy := map[int]*PktRec{} // index into sent[c.Idx]
		wantOf := func(p *refcodec.Packet) byte {
			switch p.Type {
			case refcodec.PUBLISH:
				if p.Qos == 1 {
					return refcodec.PUBACK
				} else if p.Qos == 2 {
					return refcodec.PUBREC
				}
			case refcodec.PUBREL:
				return refcodec.PUBCOMP
			case refcodec.SUBSCRIBE:
				return refcodec.SUBACK
			case refcodec.UNSUBSCRIBE:
				return refcodec.UNSUBACK
			case refcodec.PINGREQ:
				return refcodec.PINGRESP
			}
			return 0
		}
		for _, pr := range c.Pkts {
			best := -1
			for i, s := range sent[c.Idx] {
				if s.P == nil || s.Seq > pr.Seq || answeredBy[i] != nil || wantOf(s.P) != pr.P.Type {
					continue
				}
				if pr.P.Type != refcodec.PINGRESP && pr.P.PacketID != s.P.PacketID {
					continue
				}
				best = i
			}
			if best >= 0 {
				answeredBy[best] = pr
			}
		}
		for si, s := range sent[c.Idx] {
			p := s.P
			if p == nil {
				continue
			}
			if s.Op >= 0 && (r.Plan.Ops[s.Op].Kind == "raw" || r.Plan.Ops[s.Op].Note == "malformed") {
				continue
			}
			var want byte
			switch p.Type {
			case refcodec.PUBLISH:
				if p.Qos == 1 {
					want = refcodec.PUBACK
				} else if p.Qos == 2 {
					want = refcodec.PUBREC
				}
			case refcodec.PUBREL:
				want = refcodec.PUBCOMP
			case refcodec.SUBSCRIBE:
				want = refcodec.SUBACK
			case refcodec.UNSUBSCRIBE:
				want = refcodec.UNSUBACK
			case refcodec.PINGREQ:
				want = refcodec.PINGRESP
			}
			if want == 0 {
				continue
			}
			q := firstFlowingQuiesceAfter(r.H, c.Idx, s.Seq)
			if q < 0 {
				continue
			}
			if pc >= 0 && pc < q {
				continue // the peer went away before the system came to rest
			}
			found := false
			if pr := answeredBy[si]; pr != nil {
				found = true
				if (want == refcodec.SUBACK || (want == refcodec.UNSUBACK && c.Ver == 5)) && len(pr.P.ReasonCodes) != len(p.Filters) {
					out = append(out, viol("C07", "code-count", fmt.Sprintf("conn %d: %s has %d reason codes for %d filters", c.Idx, pr.P, len(pr.P.ReasonCodes), len(p.Filters)), pr.Seq, "type", refcodec.TypeNames[want]))
				}
			}
			if !found && !(bc >= 0 && bc < q) {
				out = append(out, viol("C07", "no-response", fmt.Sprintf("conn %d (v%d): %s got no %s and the connection was not closed (by quiescence seq %d)", c.Idx, c.Ver, p, refcodec.TypeNames[want], q), s.Seq,
					"request", refcodec.TypeNames[p.Type], "qos", fmt.Sprint(p.Qos), "ver", verClass(c.Ver), "topic_class", topicClass(p), "rc", fmt.Sprintf("0x%02x", p.ReasonCode),
					"over_max_qos", fmt.Sprint(p.Type == refcodec.PUBLISH && p.Qos > r.Plan.Cfg.MaxQos)))
			}
		}
	}
	return out
}

func topicClass(p *refcodec.Packet) string {
	if p.Type != refcodec.PUBLISH {
		return "-"
	}
	t := p.Topic
	switch {
	case strings.HasPrefix(t, "$SYS"):
		return "$SYS-prefix"
	case strings.HasPrefix(strings.ToUpper(t), "$SHARE"):
		return "$share-prefix"
	case strings.ContainsAny(t, "+#"):
		return "wildcard"
	case t == "":
		return "empty"
	case strings.HasPrefix(t, "$"):
		return "$other"
	}
	return "plain"
}
