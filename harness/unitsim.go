package harness

import (
	"bytes"
	"encoding/json"
	"fmt"
	"io"
	"log/slog"
	"sort"
	"strings"
	"sync"
	"testing"
	"testing/synctest"
	"time"

	"github.com/anishathalye/porcupine"
	mqtt "github.com/mochi-mqtt/server/v2"
	"github.com/mochi-mqtt/server/v2/hooks/auth"
	"github.com/mochi-mqtt/server/v2/mempool"
	"github.com/mochi-mqtt/server/v2/packets"
	"github.com/mochi-mqtt/server/v2/verifsim"
	"verifharness/refmatch"
)

// Engine C: small concurrent objects (topic index, auth ledger, buffer pool) under the same cooperative
// scheduler; histories of calls are checked against sequential reference models (porcupine for the index).

var unitT *testing.T

// UnitCase is the generated case of an engine-C run (stored in ReplayFile.Extra).
type UnitCase struct {
	Kind     string    `json:"kind"`
	Tasks    [][]UOp   `json:"tasks,omitempty"`
	Strategy int       `json:"strategy"`
	ArmAll   bool      `json:"armAll"`
	MapOrder bool      `json:"mapOrder"`
	Ledger   *LedgerCase `json:"ledger,omitempty"`
	Pool     *PoolCase `json:"pool,omitempty"`
}

type UOp struct {
	Op      string `json:"op"` // sub, unsub, retain, subscribers, messages
	Client  string `json:"client,omitempty"`
	Filter  string `json:"filter,omitempty"`
	Topic   string `json:"topic,omitempty"`
	Payload string `json:"payload,omitempty"`
}

type uRec struct {
	task   int
	op     UOp
	call   int64
	ret    int64
	out    string
	done   bool
}

// runUnitTasks runs fns as scheduler tasks inside a bubble; every scheduling decision comes from the tape.
func runUnitTasks(uc *UnitCase, tape *Tape, fns []func(), stats *Stats) (deadlock string, panics []verifsim.Event, reentrant []verifsim.Event, hits, parks []uint32) {
	func() {
		defer func() {
			if r := recover(); r != nil {
				msg := fmt.Sprint(r)
				if strings.Contains(msg, "blocked goroutines remain") || strings.Contains(msg, "deadlock: main bubble goroutine has exited") {
					return
				}
				panic(r)
			}
		}()
		synctest.Test(unitT, func(t *testing.T) {
			sc := verifsim.Activate()
			sc.ArmAll = uc.ArmAll
			sc.PoolPoints = uc.Kind == "c41"
			sc.Draw = func(label string, n int) int {
				if strings.HasPrefix(label, "order.map") && !uc.MapOrder {
					return 0
				}
				stats.Decisions++
				return tape.Draw(label, n)
			}
			for i, f := range fns {
				sc.Spawn(fmt.Sprintf("u%d", i), f)
			}
			var cur *verifsim.Task
			for steps := 0; steps < 20000; steps++ {
				synctest.Wait()
				en := sc.Enabled()
				if len(en) == 0 {
					if bl := sc.Blocked(); len(bl) > 0 {
						var ts []string
						for _, b := range bl {
							ts = append(ts, fmt.Sprintf("%s waits(%s) at %s held-by[%s]", b.Name, b.Why, verifsim.SiteString(b.Site), sc.Holder(b)))
						}
						deadlock = strings.Join(ts, " ; ")
						sc.Abandon()
					}
					break
				}
				// default: continue the current task
				if cur != nil {
					for i, t := range en {
						if t == cur {
							en[0], en[i] = en[i], en[0]
						}
					}
				}
				k := 0
				if len(en) > 1 {
					switch uc.Strategy {
					case 1:
						k = tape.Draw("sched.pick", len(en))
					case 2:
						if tape.Chance("sched.preempt", 25, 100) {
							k = tape.Draw("sched.pick", len(en))
						}
					}
					stats.Decisions++
					if k != 0 {
						stats.Preempts++
					}
				}
				cur = en[k]
				stats.Steps++
				sc.Run(cur)
			}
			for _, e := range sc.Events {
				switch e.Kind {
				case "panic":
					panics = append(panics, e)
				case "reentrant-rlock":
					reentrant = append(reentrant, e)
				}
			}
			hits, parks = sc.SiteHits, sc.SitePark
		})
	}()
	verifsim.Deactivate()
	return
}

// ---------------------------------------------------------------------------------------------------
// C31: topic index linearizability

var c31Filters = []string{"a", "a/b", "a/+", "b", "a/b/c", "+/b", "a/#", "$share/g/a/b", "$share/g/a/+"}
var c31Topics = []string{"a", "a/b", "b", "a/b/c"}
var c31MsgFilters = []string{"a", "a/b", "a/+", "+/b", "a/b/c", "b"}
var c31Clients = []string{"x", "y"}

func genC31Case(t *Tape) *UnitCase {
	uc := &UnitCase{Kind: "c31"}
	uc.Strategy = []int{1, 2, 1, 0}[t.Draw("c31.strategy", 4)]
	uc.ArmAll = t.Draw("c31.armall", 4) != 0
	uc.MapOrder = t.Draw("c31.maporder", 2) == 1
	nt := 2 + t.Draw("c31.ntasks", 3)
	total := 0
	n := 0
	for i := 0; i < nt; i++ {
		var ops []UOp
		k := 1 + t.Draw("c31.nops", 4)
		for j := 0; j < k && total < 14; j++ {
			total++
			n++
			switch t.Pick("c31.op", []int{4, 3, 3, 3, 2}) {
			case 0:
				ops = append(ops, UOp{Op: "sub", Client: pickStr(t, "c31.client", c31Clients), Filter: pickStr(t, "c31.filter", c31Filters)})
			case 1:
				ops = append(ops, UOp{Op: "unsub", Client: pickStr(t, "c31.client", c31Clients), Filter: pickStr(t, "c31.filter", c31Filters)})
			case 2:
				pl := fmt.Sprintf("v%d", n)
				if t.Draw("c31.clear", 3) == 0 {
					pl = ""
				}
				ops = append(ops, UOp{Op: "retain", Topic: pickStr(t, "c31.topic", c31Topics), Payload: pl})
			case 3:
				ops = append(ops, UOp{Op: "subscribers", Topic: pickStr(t, "c31.topic", c31Topics)})
			case 4:
				ops = append(ops, UOp{Op: "messages", Filter: pickStr(t, "c31.mfilter", c31MsgFilters)})
			}
		}
		uc.Tasks = append(uc.Tasks, ops)
	}
	return uc
}

type idxState struct {
	subs map[string]bool   // client|filter
	ret  map[string]string // topic -> payload
}

func (s idxState) clone() idxState {
	n := idxState{subs: map[string]bool{}, ret: map[string]string{}}
	for k := range s.subs {
		n.subs[k] = true
	}
	for k, v := range s.ret {
		n.ret[k] = v
	}
	return n
}

func (s idxState) key() string {
	var a []string
	for k := range s.subs {
		a = append(a, "s:"+k)
	}
	for k, v := range s.ret {
		a = append(a, "r:"+k+"="+v)
	}
	sort.Strings(a)
	return strings.Join(a, ";")
}

// refSubscribers is the sequential meaning of Subscribers(topic).
func refSubscribers(s idxState, topic string) string {
	clients := map[string]bool{}
	shared := map[string]bool{}
	for k := range s.subs {
		i := strings.IndexByte(k, '|')
		cl, f := k[:i], k[i+1:]
		if _, inner, sh := refmatch.SplitShare(f); sh {
			if refmatch.Match(inner, topic) {
				shared[f+"<"+cl] = true
			}
		} else if refmatch.Match(f, topic) {
			clients[cl] = true
		}
	}
	var a []string
	for c := range clients {
		a = append(a, c)
	}
	for c := range shared {
		a = append(a, c)
	}
	sort.Strings(a)
	return strings.Join(a, ",")
}

func refMessages(s idxState, filter string) string {
	var a []string
	for t := range s.ret {
		if refmatch.Match(filter, t) {
			a = append(a, t+"="+s.ret[t])
		}
	}
	sort.Strings(a)
	return strings.Join(a, ",")
}

func idxModel(relaxUnsub bool) porcupine.Model {
	return porcupine.Model{
		Init: func() interface{} { return idxState{subs: map[string]bool{}, ret: map[string]string{}} },
		Step: func(state, input, output interface{}) (bool, interface{}) {
			s := state.(idxState)
			op := input.(UOp)
			out := output.(string)
			switch op.Op {
			case "sub":
				k := op.Client + "|" + op.Filter
				existed := s.subs[k]
				n := s.clone()
				n.subs[k] = true
				return out == fmt.Sprint(!existed), n
			case "unsub":
				k := op.Client + "|" + op.Filter
				existed := s.subs[k]
				n := s.clone()
				delete(n.subs, k)
				if relaxUnsub && !existed {
					return true, n
				}
				return out == fmt.Sprint(existed), n
			case "retain":
				n := s.clone()
				if op.Payload != "" {
					n.ret[op.Topic] = op.Payload
					return out == "1", n
				}
				_, existed := s.ret[op.Topic]
				delete(n.ret, op.Topic)
				want := "0"
				if existed {
					want = "-1"
				}
				return out == want, n
			case "subscribers":
				return out == refSubscribers(s, op.Topic), s
			case "messages":
				return out == refMessages(s, op.Filter), s
			}
			return false, s
		},
		Equal: func(a, b interface{}) bool { return a.(idxState).key() == b.(idxState).key() },
	}
}

func runC31(uc *UnitCase, tape *Tape) *RunOutcome {
	o := &RunOutcome{}
	o.Stats.Faults = map[string]int{}
	idx := mqtt.NewTopicsIndex()
	var mu sync.Mutex
	var seq int64
	var recs []*uRec
	var fns []func()
	for ti, ops := range uc.Tasks {
		ti, ops := ti, ops
		fns = append(fns, func() {
			for _, op := range ops {
				mu.Lock()
				seq++
				r := &uRec{task: ti, op: op, call: seq}
				recs = append(recs, r)
				mu.Unlock()
				var out string
				switch op.Op {
				case "sub":
					out = fmt.Sprint(idx.Subscribe(op.Client, packets.Subscription{Filter: op.Filter}))
				case "unsub":
					out = fmt.Sprint(idx.Unsubscribe(op.Filter, op.Client))
				case "retain":
					out = fmt.Sprint(idx.RetainMessage(packets.Packet{TopicName: op.Topic, Payload: []byte(op.Payload), FixedHeader: packets.FixedHeader{Retain: true}}))
				case "subscribers":
					s := idx.Subscribers(op.Topic)
					var a []string
					for c := range s.Subscriptions {
						a = append(a, c)
					}
					for f, m := range s.Shared {
						for c := range m {
							a = append(a, f+"<"+c)
						}
					}
					sort.Strings(a)
					out = strings.Join(a, ",")
				case "messages":
					var a []string
					for _, pk := range idx.Messages(op.Filter) {
						a = append(a, pk.TopicName+"="+string(pk.Payload))
					}
					sort.Strings(a)
					out = strings.Join(a, ",")
				}
				mu.Lock()
				seq++
				r.ret, r.out, r.done = seq, out, true
				mu.Unlock()
			}
		})
	}
	dl, panics, reent, hits, parks := runUnitTasks(uc, tape, fns, &o.Stats)
	o.SiteHits, o.SitePark = hits, parks
	h := fmt.Sprintf("%v|", uc)
	var pops []porcupine.Operation
	overlap := false
	for _, r := range recs {
		h += fmt.Sprintf("%d:%s:%d-%d=%s;", r.task, r.op.Op, r.call, r.ret, r.out)
		if r.done {
			pops = append(pops, porcupine.Operation{ClientId: r.task, Input: r.op, Call: r.call, Output: r.out, Return: r.ret})
		}
	}
	for i := range recs {
		for j := range recs {
			if i != j && recs[i].call < recs[j].call && recs[j].call < recs[i].ret {
				overlap = true
			}
		}
	}
	o.Digest = shortHash(h)
	o.Relevant = overlap
	if overlap {
		o.Probes = append(o.Probes, "overlapping-calls")
	}
	if dl != "" {
		o.Violations = append(o.Violations, viol("C31", "deadlock", "topic index operations deadlocked: "+dl, -1, "where", "topics"))
	}
	for _, p := range panics {
		o.Violations = append(o.Violations, viol("C31", "panic", fmt.Sprintf("task %s panicked: %s\n%s", p.Task, p.Text, clipStr(p.Stack, 1200)), -1, "in", brokerFrame(p.Stack)))
	}
	for _, e := range reent {
		o.Other = append(o.Other, viol("C32", "reentrant-rlock", e.Text, -1, "func", "topics"))
	}
	if dl == "" && len(panics) == 0 {
		res := porcupine.CheckOperationsTimeout(idxModel(false), pops, 30*time.Second)
		switch res {
		case porcupine.Illegal:
			res2 := porcupine.CheckOperationsTimeout(idxModel(true), pops, 30*time.Second)
			var hs []string
			for _, r := range recs {
				hs = append(hs, fmt.Sprintf("t%d %s(%s%s%s %s)[%d,%d]->%s", r.task, r.op.Op, r.op.Client, r.op.Filter, r.op.Topic, r.op.Payload, r.call, r.ret, r.out))
			}
			// A relaxation that happens to admit the history does not name its cause. If the mutations alone (with
			// their return values) are linearizable under the strict model and every scan keeps the weak iteration
			// guarantee, the only defect is that a scan is not an atomic snapshot, whatever else would also explain it
			// (a relaxed Unsubscribe can be ordered before the Subscribe it overlaps, which hides the same anomaly).
			var muts0 []porcupine.Operation
			for _, po := range pops {
				if k := po.Input.(UOp).Op; k != "subscribers" && k != "messages" {
					muts0 = append(muts0, po)
				}
			}
			if res2 == porcupine.Ok && overlap && porcupine.CheckOperationsTimeout(idxModel(false), muts0, 30*time.Second) == porcupine.Ok && len(weakScanViolations(recs)) == 0 {
				o.Violations = append(o.Violations, viol("C31", "scan-not-atomic", "a scan concurrent with updates observed a state that never existed (each entry taken alone is explained): "+strings.Join(hs, " | "), -1, "scan", scanKinds(recs)))
			} else if res2 == porcupine.Ok {
				o.Violations = append(o.Violations, viol("C31", "unsubscribe-reports-existed-for-absent-subscription", "history is linearizable only if Unsubscribe may report 'existed' for a subscription that did not exist: "+strings.Join(hs, " | "), -1, "op", "unsub"))
			} else if res2 == porcupine.Illegal {
				conc := "sequential"
				if overlap {
					conc = "concurrent"
				}
				// Narrow the cause: are the mutations alone linearizable, and does every scan at least keep the
				// weak iteration guarantee (it returns everything present throughout the call and nothing absent
				// throughout it)? Then the only defect is that a scan is not an atomic snapshot.
				var muts []porcupine.Operation
				for _, po := range pops {
					if k := po.Input.(UOp).Op; k != "subscribers" && k != "messages" {
						muts = append(muts, po)
					}
				}
				if overlap && porcupine.CheckOperationsTimeout(idxModel(false), muts, 30*time.Second) == porcupine.Ok {
					if bad := weakScanViolations(recs); len(bad) == 0 {
						o.Violations = append(o.Violations, viol("C31", "scan-not-atomic", "a scan concurrent with updates observed a state that never existed (each entry taken alone is explained): "+strings.Join(hs, " | "), -1, "scan", scanKinds(recs)))
					} else {
						o.Violations = append(o.Violations, viol("C31", "scan-wrong-entry", strings.Join(bad, "; ")+" in: "+strings.Join(hs, " | "), -1, "calls", conc))
					}
				} else {
					o.Violations = append(o.Violations, viol("C31", "not-linearizable", "no serial order of the calls explains the results: "+strings.Join(hs, " | "), -1, "calls", conc, "kinds", opKinds(recs)))
				}
			} else {
				o.Probes = append(o.Probes, "porcupine-inconclusive")
			}
		case porcupine.Unknown:
			o.Probes = append(o.Probes, "porcupine-inconclusive")
		}
	}
	o.Sample = map[string]any{"case": uc, "digest": o.Digest}
	return o
}

// presence classifies one key over the window [qc,qr] of a scan, from the calls that set it and the calls
// that clear it: mustBe — set by a call that returned before the scan began and not cleared by any call that
// could take effect before the scan ended; mustNot — every set that could take effect before the scan ended
// was followed by a clear that returned before the scan began.
func presence(sets, clears []*uRec, qc, qr int64) (mustBe, mustNot bool) {
	for _, s := range sets {
		if !s.done || s.ret > qc {
			continue
		}
		cleared := false
		for _, u := range clears {
			if (!u.done || u.ret > s.call) && u.call < qr {
				cleared = true
			}
		}
		if !cleared {
			mustBe = true
		}
	}
	mustNot = true
	for _, s := range sets {
		if s.call > qr {
			continue
		}
		cancelled := false
		for _, u := range clears {
			if s.done && u.done && u.call > s.ret && u.ret < qc {
				cancelled = true
			}
		}
		if !cancelled {
			mustNot = false
		}
	}
	return
}

// weakScanViolations checks every Subscribers / Messages call against the weak iteration guarantee.
func weakScanViolations(recs []*uRec) []string {
	var bad []string
	for _, q := range recs {
		if !q.done || (q.op.Op != "subscribers" && q.op.Op != "messages") {
			continue
		}
		got := map[string]bool{}
		if q.out != "" {
			for _, e := range strings.Split(q.out, ",") {
				got[e] = true
			}
		}
		if q.op.Op == "subscribers" {
			type acc struct{ be, not, any bool }
			entries := map[string]*acc{}
			keys := map[string][2]string{}
			for _, r := range recs {
				if r.op.Op == "sub" || r.op.Op == "unsub" {
					keys[r.op.Client+"|"+r.op.Filter] = [2]string{r.op.Client, r.op.Filter}
				}
			}
			for k, cf := range keys {
				entry := cf[0]
				if _, inner, sh := refmatch.SplitShare(cf[1]); sh {
					if !refmatch.Match(inner, q.op.Topic) {
						continue
					}
					entry = cf[1] + "<" + cf[0]
				} else if !refmatch.Match(cf[1], q.op.Topic) {
					continue
				}
				var sets, clears []*uRec
				for _, r := range recs {
					if r.op.Client+"|"+r.op.Filter == k {
						if r.op.Op == "sub" {
							sets = append(sets, r)
						} else if r.op.Op == "unsub" {
							clears = append(clears, r)
						}
					}
				}
				be, not := presence(sets, clears, q.call, q.ret)
				a := entries[entry]
				if a == nil {
					a = &acc{not: true}
					entries[entry] = a
				}
				a.any = true
				a.be = a.be || be
				a.not = a.not && not
			}
			for e, a := range entries {
				if a.be && !got[e] {
					bad = append(bad, fmt.Sprintf("Subscribers(%s)[%d,%d] omitted %q, which was subscribed throughout the call", q.op.Topic, q.call, q.ret, e))
				}
				if a.not && got[e] {
					bad = append(bad, fmt.Sprintf("Subscribers(%s)[%d,%d] returned %q, which was not subscribed at any time during the call", q.op.Topic, q.call, q.ret, e))
				}
			}
			for e := range got {
				if entries[e] == nil {
					bad = append(bad, fmt.Sprintf("Subscribers(%s)[%d,%d] returned %q, which no call could have produced", q.op.Topic, q.call, q.ret, e))
				}
			}
			continue
		}
		topics := map[string]bool{}
		for _, r := range recs {
			if r.op.Op == "retain" {
				topics[r.op.Topic] = true
			}
		}
		gotTopic := map[string]string{}
		for e := range got {
			if i := strings.IndexByte(e, '='); i >= 0 {
				gotTopic[e[:i]] = e[i+1:]
			}
		}
		for t := range topics {
			var sets, clears []*uRec
			for _, r := range recs {
				if r.op.Op == "retain" && r.op.Topic == t {
					if r.op.Payload != "" {
						sets = append(sets, r)
					} else {
						clears = append(clears, r)
					}
				}
			}
			v, present := gotTopic[t]
			if !refmatch.Match(q.op.Filter, t) {
				if present {
					bad = append(bad, fmt.Sprintf("Messages(%s)[%d,%d] returned topic %q, which the filter does not match", q.op.Filter, q.call, q.ret, t))
				}
				continue
			}
			be, not := presence(sets, clears, q.call, q.ret)
			if be && !present {
				bad = append(bad, fmt.Sprintf("Messages(%s)[%d,%d] omitted %q, which was retained throughout the call", q.op.Filter, q.call, q.ret, t))
			}
			if not && present {
				bad = append(bad, fmt.Sprintf("Messages(%s)[%d,%d] returned %q, which was not retained at any time during the call", q.op.Filter, q.call, q.ret, t))
			}
			if present {
				ok := false
				for _, s := range sets {
					if s.call < q.ret && s.op.Payload == v {
						ok = true
					}
				}
				if !ok {
					bad = append(bad, fmt.Sprintf("Messages(%s)[%d,%d] returned %s=%s, a payload no call stored", q.op.Filter, q.call, q.ret, t, v))
				}
			}
		}
		for t := range gotTopic {
			if !topics[t] {
				bad = append(bad, fmt.Sprintf("Messages(%s)[%d,%d] returned unknown topic %q", q.op.Filter, q.call, q.ret, t))
			}
		}
	}
	sort.Strings(bad)
	return bad
}

func scanKinds(recs []*uRec) string {
	set := map[string]bool{}
	for _, r := range recs {
		if r.op.Op == "subscribers" || r.op.Op == "messages" {
			set[r.op.Op] = true
		}
	}
	var a []string
	for k := range set {
		a = append(a, k)
	}
	sort.Strings(a)
	return strings.Join(a, "+")
}

func opKinds(recs []*uRec) string {
	set := map[string]bool{}
	for _, r := range recs {
		set[r.op.Op] = true
	}
	var a []string
	for k := range set {
		a = append(a, k)
	}
	sort.Strings(a)
	return strings.Join(a, "+")
}

func shortHash(s string) string {
	h := uint64(1469598103934665603)
	for i := 0; i < len(s); i++ {
		h ^= uint64(s[i])
		h *= 1099511628211
	}
	return fmt.Sprintf("%016x", h)
}

// ---------------------------------------------------------------------------------------------------
// C18: auth ledger

type LedgerCase struct {
	Users  map[string]LedgerUser `json:"users"`
	Auth   []LedgerAuthRule      `json:"auth"`
	ACL    []LedgerACLRule       `json:"acl"`
	Probes []LedgerProbe         `json:"probes"`
}
type LedgerUser struct {
	Password string            `json:"password"`
	Disallow bool              `json:"disallow"`
	ACL      map[string]byte   `json:"acl"`
}
type LedgerAuthRule struct {
	Client, Username, Remote, Password string
	Allow                              bool
}
type LedgerACLRule struct {
	Client, Username, Remote string
	Filters                  map[string]byte
}
type LedgerProbe struct {
	Client, Username, Password string
	Topic                      string
	Write                      bool
	IsAuth                     bool
}

// (levels may be empty: "/a/b" has an empty first level and is a different topic from "a/b")
var ledgerFilters = []string{"a", "a/b", "a/+", "a/#", "+/b", "a/b/c", "#", "b", "/a/b", "/#", "a/b/"}
var ledgerTopics = []string{"a", "a/b", "a/b/c", "b", "b/c", "a/c", "/a/b", "/a", "a/b/"}

func genC18Case(t *Tape) *UnitCase {
	lc := &LedgerCase{Users: map[string]LedgerUser{}}
	for _, u := range []string{"u1", "u2"} {
		if t.Draw("c18.user", 3) == 0 {
			continue
		}
		lu := LedgerUser{Password: "pw", Disallow: t.Draw("c18.disallow", 4) == 0, ACL: map[string]byte{}}
		for i := 0; i < t.Draw("c18.nacl", 4); i++ {
			lu.ACL[pickStr(t, "c18.filter", ledgerFilters)] = byte(t.Draw("c18.access", 4))
		}
		lc.Users[u] = lu
	}
	pats := []string{"", "*", "c1", "c*", "u1", "zz"}
	for i := 0; i < t.Draw("c18.nauth", 4); i++ {
		lc.Auth = append(lc.Auth, LedgerAuthRule{Client: pats[t.Draw("c18.pc", 4)], Username: []string{"", "u1", "u2", "u*"}[t.Draw("c18.pu", 4)], Password: []string{"", "pw", "no"}[t.Draw("c18.pp", 3)], Allow: t.Draw("c18.allow", 2) == 1})
	}
	for i := 0; i < t.Draw("c18.nrules", 4); i++ {
		r := LedgerACLRule{Client: pats[t.Draw("c18.pc", 4)], Username: []string{"", "u1", "u2", "u*"}[t.Draw("c18.pu", 4)], Filters: map[string]byte{}}
		for j := 0; j < t.Draw("c18.nf", 4); j++ {
			r.Filters[pickStr(t, "c18.filter", ledgerFilters)] = byte(t.Draw("c18.access", 4))
		}
		lc.ACL = append(lc.ACL, r)
	}
	for i := 0; i < 6; i++ {
		lc.Probes = append(lc.Probes, LedgerProbe{Client: []string{"c1", "c22", "other"}[t.Draw("c18.cl", 3)], Username: []string{"u1", "u2", "u3x"}[t.Draw("c18.un", 3)],
			Password: []string{"pw", "no"}[t.Draw("c18.pwd", 2)], Topic: pickStr(t, "c18.topic", ledgerTopics), Write: t.Draw("c18.write", 2) == 1, IsAuth: t.Draw("c18.isauth", 4) == 0})
	}
	return &UnitCase{Kind: "c18", Ledger: lc, MapOrder: true}
}

// refLevelMatch: a rule filter matches a topic only level by level; no-wildcard filters match only the
// identical topic, '+' exactly one level, a trailing '#' one or more further levels.
func refLevelMatch(filter, topic string) bool {
	fl := strings.Split(filter, "/")
	tl := strings.Split(topic, "/")
	for i, f := range fl {
		if f == "#" && i == len(fl)-1 {
			return len(tl) > i
		}
		if i >= len(tl) {
			return false
		}
		if f != "+" && f != tl[i] {
			return false
		}
	}
	return len(fl) == len(tl)
}

func patMatch(p, a string) bool {
	if p == "" || p == "*" || p == a {
		return true
	}
	if i := strings.Index(p, "*"); i > 0 && len(a) > i && p[:i] == a[:i] {
		return true
	}
	return false
}

// refACL returns (decision, determined): determined is false when several of a user's own filters with
// different access match (the statement leaves their precedence open; only determinism is required).
func refACL(lc *LedgerCase, p LedgerProbe, match func(f, t string) bool) (bool, bool) {
	allowsAccess := func(a byte) bool {
		if p.Write {
			return a == 2 || a == 3
		}
		return a == 1 || a == 3
	}
	if u, ok := lc.Users[p.Username]; ok && len(u.ACL) > 0 {
		var outcomes []bool
		for f, a := range u.ACL {
			if match(f, p.Topic) {
				outcomes = append(outcomes, allowsAccess(a))
			}
		}
		if len(outcomes) > 0 {
			all := outcomes[0]
			for _, o := range outcomes {
				if o != all {
					return false, false
				}
			}
			return all, true
		}
	}
	for _, r := range lc.ACL {
		if patMatch(r.Client, p.Client) && patMatch(r.Username, p.Username) && patMatch(r.Remote, "") {
			if len(r.Filters) == 0 {
				return true, true
			}
			any, anyOK := false, false
			for f, a := range r.Filters {
				if match(f, p.Topic) {
					any = true
					if allowsAccess(a) {
						anyOK = true
					}
				}
			}
			if anyOK {
				return true, true
			}
			if any {
				return false, true
			}
		}
	}
	return true, true
}

func refAuth(lc *LedgerCase, p LedgerProbe) bool {
	if u, ok := lc.Users[p.Username]; ok && u.Password != "" && u.Password == p.Password {
		return !u.Disallow
	}
	for _, r := range lc.Auth {
		if patMatch(r.Client, p.Client) && patMatch(r.Username, p.Username) && patMatch(r.Password, p.Password) && patMatch(r.Remote, "") {
			return r.Allow
		}
	}
	return false
}

func runC18(uc *UnitCase, tape *Tape) *RunOutcome {
	o := &RunOutcome{}
	o.Stats.Faults = map[string]int{}
	lc := uc.Ledger
	led := &auth.Ledger{Users: auth.Users{}}
	for name, u := range lc.Users {
		f := auth.Filters{}
		for k, a := range u.ACL {
			f[auth.RString(k)] = auth.Access(a)
		}
		led.Users[name] = auth.UserRule{Username: auth.RString(name), Password: auth.RString(u.Password), Disallow: u.Disallow, ACL: f}
	}
	for _, r := range lc.Auth {
		led.Auth = append(led.Auth, auth.AuthRule{Client: auth.RString(r.Client), Username: auth.RString(r.Username), Remote: auth.RString(r.Remote), Password: auth.RString(r.Password), Allow: r.Allow})
	}
	for _, r := range lc.ACL {
		f := auth.Filters{}
		for k, a := range r.Filters {
			f[auth.RString(k)] = auth.Access(a)
		}
		led.ACL = append(led.ACL, auth.ACLRule{Client: auth.RString(r.Client), Username: auth.RString(r.Username), Remote: auth.RString(r.Remote), Filters: f})
	}
	srv := mqtt.New(&mqtt.Options{Logger: slog.New(slog.NewTextHandler(io.Discard, nil))})
	results := make([][]bool, len(lc.Probes))
	const reps = 8
	fn := func() {
		for i, p := range lc.Probes {
			cl := srv.NewClient(nil, "sim", p.Client, false)
			cl.Properties.Username = []byte(p.Username)
			for k := 0; k < reps; k++ {
				var ok bool
				if p.IsAuth {
					_, ok = led.AuthOk(cl, packets.Packet{Connect: packets.ConnectParams{Password: []byte(p.Password)}})
				} else {
					_, ok = led.ACLOk(cl, p.Topic, p.Write)
				}
				results[i] = append(results[i], ok)
			}
		}
	}
	_, panics, _, hits, parks := runUnitTasks(uc, tape, []func(){fn}, &o.Stats)
	o.SiteHits, o.SitePark = hits, parks
	o.Stats.Faults["order.map"] = o.Stats.Decisions
	h := ""
	nondet := false
	for i, p := range lc.Probes {
		rs := results[i]
		h += fmt.Sprintf("%v;", rs)
		if len(rs) == 0 {
			continue
		}
		same := true
		for _, r := range rs {
			if r != rs[0] {
				same = false
			}
		}
		kind := "acl"
		if p.IsAuth {
			kind = "auth"
		}
		if !same {
			nondet = true
			o.Violations = append(o.Violations, viol("C18", "decision-not-deterministic", fmt.Sprintf("%s decision for client %q user %q topic %q write=%v gave %v over %d evaluations with different map iteration orders (ledger %s)", kind, p.Client, p.Username, p.Topic, p.Write, rs, reps, mustJSON(lc)), -1, "kind", kind))
			continue
		}
		if p.IsAuth {
			if want := refAuth(lc, p); want != rs[0] {
				o.Violations = append(o.Violations, viol("C18", "auth-decision", fmt.Sprintf("connect decision for client %q user %q password %q is %v, reference (users first, then global rules in list order) says %v (ledger %s)", p.Client, p.Username, p.Password, rs[0], want, mustJSON(lc)), -1))
			}
			continue
		}
		want, det := refACL(lc, p, refLevelMatch)
		if det && want != rs[0] {
			// which rule of level matching is involved?
			why := "other"
			if w2, d2 := refACL(lc, p, func(f, t string) bool { _, ok := auth.MatchTopic(f, t); return ok }); !d2 || w2 == rs[0] {
				why = "filter-matching" // explained by the ledger's own (prefix) notion of matching
			}
			o.Violations = append(o.Violations, viol("C18", "acl-decision", fmt.Sprintf("access decision for client %q user %q topic %q write=%v is %v, level-by-level reference says %v (ledger %s)", p.Client, p.Username, p.Topic, p.Write, rs[0], want, mustJSON(lc)), -1, "why", why))
		}
	}
	for _, p := range panics {
		o.Violations = append(o.Violations, viol("C18", "panic", p.Text, -1, "in", brokerFrame(p.Stack)))
	}
	o.Digest = shortHash(mustJSON(uc) + h)
	o.Relevant = o.Stats.Decisions > 0
	if nondet {
		o.Probes = append(o.Probes, "order-dependent-outcome")
	}
	o.Sample = map[string]any{"ledger": lc, "digest": o.Digest}
	return o
}

func mustJSON(v any) string {
	b, _ := json.Marshal(v)
	return string(b)
}

// ---------------------------------------------------------------------------------------------------
// C41: buffer pool

type PoolCase struct {
	Cap    int       `json:"cap"`
	Tasks  [][]int   `json:"tasks"` // sizes written between get and put; negative = hold two buffers at once
	Free   bool      `json:"free"`  // real goroutines on all cores instead of the cooperative scheduler
}

func genC41Case(t *Tape) *UnitCase {
	// (Free, real goroutines on the real sync.Pool, is no longer generated: a violation found that way does not
	// replay. Under the scheduler sync.Pool is verifsim's deterministic free list with schedule points at Get/Put.)
	pc := &PoolCase{Cap: []int{0, 16, 64}[t.Draw("c41.cap", 3)]}
	nt := 2 + t.Draw("c41.ntasks", 5)
	for i := 0; i < nt; i++ {
		var sizes []int
		for j := 0; j < 2+t.Draw("c41.nops", 8); j++ {
			sz := []int{1, 8, 20, 70, 200}[t.Draw("c41.size", 5)]
			if t.Draw("c41.two", 4) == 0 {
				sz = -sz
			}
			sizes = append(sizes, sz)
		}
		pc.Tasks = append(pc.Tasks, sizes)
	}
	return &UnitCase{Kind: "c41", Pool: pc, Strategy: 1}
}

func runC41(uc *UnitCase, tape *Tape) *RunOutcome {
	o := &RunOutcome{}
	o.Stats.Faults = map[string]int{}
	pc := uc.Pool
	pool := mempool.NewBuffer(pc.Cap)
	var mu sync.Mutex
	owned := map[*bytes.Buffer]int{}
	rejected := map[*bytes.Buffer]bool{} // buffers put while above the cap: must never come back
	var keep []*bytes.Buffer               // keeps identities unique
	var viols []Violation
	report := func(v Violation) {
		viols = append(viols, v)
	}
	get := func(task int) *bytes.Buffer {
		b := pool.Get()
		mu.Lock()
		defer mu.Unlock()
		keep = append(keep, b)
		if b.Len() != 0 {
			report(viol("C41", "dirty-buffer", fmt.Sprintf("Get returned a buffer holding %d bytes", b.Len()), -1, "cap", fmt.Sprint(pc.Cap > 0)))
		}
		if other, ok := owned[b]; ok {
			report(viol("C41", "buffer-shared", fmt.Sprintf("Get handed task %d a buffer that task %d still holds", task, other), -1, "cap", fmt.Sprint(pc.Cap > 0)))
		}
		if rejected[b] {
			report(viol("C41", "oversized-buffer-kept", fmt.Sprintf("capped pool (cap %d) handed out a buffer of capacity %d it should have discarded", pc.Cap, b.Cap()), -1))
		}
		if pc.Cap > 0 && b.Cap() > pc.Cap && len(rejected) >= 0 && b.Cap() > 0 && wasPut(b, rejected) {
			report(viol("C41", "oversized-buffer-kept", fmt.Sprintf("capped pool (cap %d) handed out a buffer of capacity %d", pc.Cap, b.Cap()), -1))
		}
		owned[b] = task
		return b
	}
	put := func(b *bytes.Buffer) {
		mu.Lock()
		delete(owned, b)
		if pc.Cap > 0 && b.Cap() > pc.Cap {
			rejected[b] = true
		}
		mu.Unlock()
		pool.Put(b)
	}
	var fns []func()
	for ti, sizes := range pc.Tasks {
		ti, sizes := ti, sizes
		fns = append(fns, func() {
			for _, sz := range sizes {
				two := sz < 0
				if two {
					sz = -sz
				}
				b := get(ti)
				b.Write(bytes.Repeat([]byte{byte('a' + ti)}, sz))
				verifsim.Yield(-1)
				var b2 *bytes.Buffer
				if two {
					b2 = get(ti)
					b2.WriteString("second")
				}
				// nobody else may have written into our buffer, or emptied it
				if b.Len() != sz {
					mu.Lock()
					report(viol("C41", "buffer-shared", fmt.Sprintf("task %d wrote %d bytes into the buffer it holds and finds %d: another user touched it", ti, sz, b.Len()), -1, "cap", fmt.Sprint(pc.Cap > 0)))
					mu.Unlock()
				}
				for _, c := range b.Bytes() {
					if c != byte('a'+ti) {
						mu.Lock()
						report(viol("C41", "buffer-shared", fmt.Sprintf("task %d found foreign bytes in the buffer it holds", ti), -1, "cap", fmt.Sprint(pc.Cap > 0)))
						mu.Unlock()
						break
					}
				}
				verifsim.Yield(-1)
				put(b)
				if b2 != nil {
					put(b2)
				}
			}
		})
	}
	if pc.Free {
		var wg sync.WaitGroup
		for _, f := range fns {
			wg.Add(1)
			go func(f func()) { defer wg.Done(); f() }(f)
		}
		wg.Wait()
		o.Stats.Steps = len(fns)
		o.Probes = append(o.Probes, "free-running-parallel")
	} else {
		_, panics, _, _, _ := runUnitTasks(uc, tape, fns, &o.Stats)
		for _, p := range panics {
			viols = append(viols, viol("C41", "panic", p.Text, -1, "in", brokerFrame(p.Stack)))
		}
		o.Probes = append(o.Probes, "cooperative")
	}
	seen := map[string]bool{}
	for _, v := range viols {
		if !seen[v.Fingerprint()] {
			seen[v.Fingerprint()] = true
			o.Violations = append(o.Violations, v)
		}
	}
	reuse := 0
	for i, b := range keep {
		for _, c := range keep[:i] {
			if b == c {
				reuse++
				break
			}
		}
	}
	if reuse > 0 {
		o.Probes = append(o.Probes, "buffer-reused-from-pool")
	}
	o.Digest = shortHash(mustJSON(uc) + fmt.Sprint(tape.Rec))
	o.Relevant = len(pc.Tasks) >= 2
	o.Sample = map[string]any{"pool": pc, "digest": o.Digest}
	return o
}

func wasPut(b *bytes.Buffer, rejected map[*bytes.Buffer]bool) bool { return rejected[b] }

// ---------------------------------------------------------------------------------------------------

func unitRunner(gen func(t *Tape) *UnitCase, run func(uc *UnitCase, tape *Tape) *RunOutcome) func(p *Profile, seed uint64, rf *ReplayFile) *RunOutcome {
	return func(p *Profile, seed uint64, rf *ReplayFile) *RunOutcome {
		var uc *UnitCase
		var tape *Tape
		if rf != nil {
			uc = &UnitCase{}
			_ = json.Unmarshal(rf.Extra, uc)
			tape = ReplayTape(rf.Sched)
		} else {
			uc = gen(NewTape(seed))
			tape = NewTape(mix(seed + 0x5ced))
		}
		o := run(uc, tape)
		extra, _ := json.Marshal(uc)
		o.Replay = &ReplayFile{V: 1, Property: p.Name, Profile: p.Name, Engine: "C", RunSeed: seed, Extra: extra, Sched: append([]uint32(nil), tape.Rec...), Digest: o.Digest, Steps: o.Stats.Steps}
		return o
	}
}

func init() {
	register(&Profile{Name: "C31", Engine: "C", Runner: unitRunner(genC31Case, runC31)})
	register(&Profile{Name: "C18", Engine: "C", Runner: unitRunner(genC18Case, runC18)})
	register(&Profile{Name: "C41", Engine: "C", Runner: unitRunner(genC41Case, runC41)})
}
