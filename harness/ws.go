package harness

import (
	"bufio"
	"bytes"
	"errors"
	"net"
	"net/http"
)

// WebSocket framing for the simulated peer (RFC 6455), written independently of gorilla/websocket.

// wsFrame builds one frame; client frames are masked.
func wsFrame(opcode byte, fin bool, payload []byte, mask [4]byte) []byte {
	b0 := opcode
	if fin {
		b0 |= 0x80
	}
	out := []byte{b0}
	n := len(payload)
	switch {
	case n < 126:
		out = append(out, 0x80|byte(n))
	case n < 65536:
		out = append(out, 0x80|126, byte(n>>8), byte(n))
	default:
		out = append(out, 0x80|127, 0, 0, 0, 0, byte(n>>24), byte(n>>16), byte(n>>8), byte(n))
	}
	out = append(out, mask[:]...)
	for i, c := range payload {
		out = append(out, c^mask[i%4])
	}
	return out
}

// wsDeframe consumes complete server frames from b and returns the binary payload bytes, the number of
// bytes consumed, whether a close frame was seen, and the number of control frames.
func wsDeframe(b []byte) (data []byte, used int, closed bool, ctrl int, err error) {
	for {
		if len(b)-used < 2 {
			return
		}
		p := b[used:]
		op := p[0] & 0x0f
		masked := p[1]&0x80 != 0
		n := int(p[1] & 0x7f)
		hl := 2
		switch n {
		case 126:
			if len(p) < 4 {
				return
			}
			n = int(p[2])<<8 | int(p[3])
			hl = 4
		case 127:
			if len(p) < 10 {
				return
			}
			n = int(p[6])<<24 | int(p[7])<<16 | int(p[8])<<8 | int(p[9])
			hl = 10
		}
		if masked {
			err = errors.New("server frame is masked")
			return
		}
		if len(p) < hl+n {
			return
		}
		payload := p[hl : hl+n]
		switch op {
		case 0, 2:
			data = append(data, payload...)
		case 1:
			err = errors.New("server sent a text frame")
			return
		case 8:
			closed = true
			ctrl++
		case 9, 10:
			ctrl++
		default:
			err = errors.New("reserved websocket opcode")
			return
		}
		used += hl + n
	}
}

// hijackRW is a minimal hijackable http.ResponseWriter over a simulated connection.
type hijackRW struct {
	conn net.Conn
	hdr  http.Header
	code int
	body bytes.Buffer
}

func (h *hijackRW) Header() http.Header {
	if h.hdr == nil {
		h.hdr = http.Header{}
	}
	return h.hdr
}
func (h *hijackRW) Write(b []byte) (int, error) { return h.body.Write(b) }
func (h *hijackRW) WriteHeader(code int)        { h.code = code }
func (h *hijackRW) Hijack() (net.Conn, *bufio.ReadWriter, error) {
	return h.conn, bufio.NewReadWriter(bufio.NewReader(h.conn), bufio.NewWriter(h.conn)), nil
}

func wsUpgradeRequest() *http.Request {
	r, _ := http.NewRequest("GET", "http://sim/", nil)
	r.Header.Set("Connection", "Upgrade")
	r.Header.Set("Upgrade", "websocket")
	r.Header.Set("Sec-WebSocket-Version", "13")
	r.Header.Set("Sec-WebSocket-Key", "dGhlIHNhbXBsZSBub25jZQ==")
	r.Header.Set("Sec-WebSocket-Protocol", "mqtt")
	return r
}
