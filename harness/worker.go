package harness

import (
	"encoding/json"
	"fmt"
	"os"
	"path/filepath"
	"sort"
	"strconv"
	"strings"
	"testing"
	"time"

	"github.com/mochi-mqtt/server/v2/verifsim"
)

// ReplayFile is a self-contained, exactly repeatable description of one execution.
type ReplayFile struct {
	V         int             `json:"v"`
	Property  string          `json:"property"`
	Profile   string          `json:"profile"`
	Engine    string          `json:"engine"`
	Seed      uint64          `json:"seed"`
	Worker    int             `json:"worker"`
	Run       int             `json:"run"`
	RunSeed   uint64          `json:"runSeed"`
	Plan      *Plan           `json:"plan,omitempty"`
	Sched     []uint32        `json:"sched"`
	Extra     json.RawMessage `json:"extra,omitempty"` // engine-specific case (engines B and C)
	Violation *Violation      `json:"violation,omitempty"`
	Digest    string          `json:"digest"`
	Steps     int             `json:"steps"`
	Minimised bool            `json:"minimised"`
	Expanded  []string        `json:"expanded,omitempty"` // human-readable schedule / history excerpt; never executed
}

// RunOutcome is what one run of any engine reports to the worker loop.
type RunOutcome struct {
	Violations []Violation
	Other      []Violation
	Relevant   bool
	Probes     []string
	Digest     string
	Stats      Stats
	Replay     *ReplayFile
	Sample     any
	SiteHits   []uint32
	SitePark   []uint32
	Leak       bool
	StateSigs  []string
	ReplayFor  map[string]*ReplayFile // per-fingerprint replay (engines that run several executions per evaluation)
}

type WorkerSummary struct {
	Profile     string           `json:"profile"`
	Seed        uint64           `json:"seed"`
	Worker      int              `json:"worker"`
	Runs        int              `json:"runs"`
	Relevant    int              `json:"relevant"`
	Digests     []string         `json:"digests"` // digests of relevant runs
	Violations  []FoundViolation `json:"violations"`
	OtherProps  map[string]int   `json:"otherProps"`
	Steps       int64            `json:"steps"`
	Decisions   int64            `json:"decisions"`
	Preempts    int64            `json:"preempts"`
	SimMs       int64            `json:"simMs"`
	Faults      map[string]int   `json:"faults"`
	Probes      map[string]int   `json:"probes"`
	Truncated   int              `json:"truncated"`
	Leaks       int              `json:"leaks"`
	SitesHit    []int            `json:"sitesHit"`
	SitesParked []int            `json:"sitesParked"`
	NumSites    int              `json:"numSites"`
	StateSigs   []string         `json:"stateSigs"`
	Samples     []any            `json:"samples"`
	WallS       float64          `json:"wallS"`
	Strategies  map[string]int   `json:"strategies"`
}

type FoundViolation struct {
	Fingerprint string    `json:"fingerprint"`
	V           Violation `json:"v"`
	Replay      string    `json:"replay"`
	Count       int       `json:"count"`
}

func envInt(name string, def int) int {
	if v := os.Getenv(name); v != "" {
		if n, err := strconv.Atoi(v); err == nil {
			return n
		}
	}
	return def
}

func envU64(name string, def uint64) uint64 {
	if v := os.Getenv(name); v != "" {
		if n, err := strconv.ParseUint(v, 10, 64); err == nil {
			return n
		}
	}
	return def
}

// runEngineA generates (or replays) a plan and executes it.
func runEngineA(t *testing.T, p *Profile, runSeed uint64, rf *ReplayFile) *RunOutcome {
	var plan *Plan
	var sched *Tape
	if rf != nil {
		plan = rf.Plan
		sched = ReplayTape(rf.Sched)
	} else {
		plan = p.Gen(NewTape(runSeed))
		sched = NewTape(mix(runSeed + 0x5ced))
	}
	res := RunPlan(t, plan, sched)
	lastResult = res
	out := &RunOutcome{Digest: res.Digest, Stats: res.Stats, Leak: res.BubbleLeak, SiteHits: res.Ex.SiteHits, SitePark: res.Ex.SitePark}
	all := universalChecks(res)
	if p.Check != nil {
		all = append(all, p.Check(res)...)
	}
	seen := map[string]bool{}
	for _, v := range all {
		key := v.Fingerprint()
		if seen[key] {
			continue
		}
		seen[key] = true
		if v.Property == p.Name || (p.Name == "C27" && v.Property == "C28" && v.Class == "panic") {
			if p.Name == "C27" {
				v.Property = "C27"
			}
			out.Violations = append(out.Violations, v)
		} else {
			out.Other = append(out.Other, v)
		}
	}
	if len(out.Violations) > 0 {
		// Does the violation need an interleaving? Re-run the same operations strictly one after the other under
		// the default schedule (no concurrent operations, run-to-block, no holds) and record whether a violation
		// of the same class appears there too. The answer is a feature of the fingerprint ("sched"): it separates
		// a defect any sequential history shows from one that only a race between handlers produces.
		seq := clonePlan(plan)
		seq.Cfg.Strategy, seq.Cfg.HoldPct, seq.Cfg.ArmMode, seq.Cfg.PreemptPct = 0, 0, 0, 0
		for i := range seq.Ops {
			seq.Ops[i].Concurrent = false
		}
		sres := RunPlan(t, seq, ReplayTape(nil))
		inSeq := map[string]bool{}
		sall := universalChecks(sres)
		if p.Check != nil {
			sall = append(sall, p.Check(sres)...)
		}
		// two violations are "the same" here when property, class and the cause-like features agree (features that
		// describe the incidental shape of the history, such as the session's origin, are ignored)
		causeLike := []string{"cause", "why", "nolocal", "first", "which", "how", "code", "type", "was", "path", "what", "state", "left_open", "request", "over_max_qos", "sign", "kind", "explained", "delayed", "held", "rm_limited", "pubrel", "write_fault", "resumed", "handler", "key_collision", "order", "client_used_same_id"}
		key := func(v Violation) string {
			k := v.Property + "/" + v.Class
			if p.Name == "C27" && v.Class == "panic" {
				k = "C28/panic"
			}
			for _, f := range causeLike {
				if x, ok := v.Features[f]; ok {
					k += "|" + f + "=" + x
				}
			}
			return k
		}
		for _, v := range sall {
			if p.Name == "C27" && v.Property == "C28" && v.Class == "panic" {
				v.Property = "C27"
			}
			inSeq[key(v)] = true
		}
		for i := range out.Violations {
			v := &out.Violations[i]
			f := map[string]string{}
			for k, x := range v.Features {
				f[k] = x
			}
			if inSeq[key(*v)] {
				f["sched"] = "any"
				if overlappingConnects(sres) {
					// the plan itself (a stalled write, say) keeps two CONNECTs of one client id inside their handshakes
					// at the same time: the sequential re-run is not free of handler concurrency after all
					f["sched"] = "concurrent-connects"
				}
			} else {
				f["sched"] = "interleaving"
			}
			v.Features = f
		}
		out.Stats.Steps += sres.Stats.Steps
	}
	if p.Relevant != nil {
		out.Relevant, out.Probes = p.Relevant(res)
	} else {
		out.Relevant = true
	}
	out.Replay = &ReplayFile{V: 1, Property: p.Name, Profile: p.Name, Engine: "A", RunSeed: runSeed, Plan: plan, Sched: append([]uint32(nil), sched.Rec...), Digest: res.Digest, Steps: res.Stats.Steps}
	out.Sample = sampleOf(res)
	out.StateSigs = stateSigs(res)
	return out
}

// sampleOf renders a compact description of a run for the evidence file.
func sampleOf(res *Result) any {
	var ops []string
	for i, op := range res.Plan.Ops {
		s := fmt.Sprintf("%d:%s", i, op.Kind)
		if op.Kind != "advance" && op.Kind != "server_close" && !strings.HasPrefix(op.Kind, "inline") {
			s += fmt.Sprintf("[s%d]", op.Slot)
		}
		if op.Pkt != nil {
			s += " " + op.Pkt.String()
		}
		if op.Ms != 0 {
			s += fmt.Sprintf(" %dms", op.Ms)
		}
		if op.Str != "" {
			s += " " + op.Str
		}
		if op.Concurrent {
			s += " ||"
		}
		ops = append(ops, s)
	}
	return map[string]any{"digest": res.Digest, "cfg": res.Plan.Cfg, "ops": ops, "steps": res.Stats.Steps, "events": res.H.Len(), "simMs": res.Stats.SimMs}
}

// stateSigs returns abstract signatures of the broker state at each quiescent point (a reach measure).
func stateSigs(res *Result) []string {
	var out []string
	for _, e := range res.H.Evs {
		if e.Kind == "quiesce" && e.Probe != nil {
			p := e.Probe
			out = append(out, fmt.Sprintf("c%d/s%d+%d/r%d/i%d/w%d/k%d", p.OpenConns, p.ActClientSubs, p.ActSharedSubs, p.ActRetained, p.ActInflight, len(p.WillDelayed), len(p.Clients)))
		}
	}
	return out
}

func runOne(t *testing.T, p *Profile, runSeed uint64, rf *ReplayFile) *RunOutcome {
	if p.Runner != nil {
		unitT = t
		return p.Runner(p, runSeed, rf)
	}
	return runEngineA(t, p, runSeed, rf)
}

func writeJSON(path string, v any) error {
	b, err := json.MarshalIndent(v, "", " ")
	if err != nil {
		return err
	}
	return os.WriteFile(path, b, 0644)
}

// WorkerMain is the seeded search loop of one worker process.
func WorkerMain(t *testing.T) {
	name := os.Getenv("VERIF_PROFILE")
	p := profiles[name]
	if p == nil {
		fmt.Printf("TOOLING unknown profile %q\n", name)
		os.Exit(2)
	}
	seed := envU64("VERIF_SEED", 1)
	worker := envInt("VERIF_WORKER", 0)
	budgetMs := envInt("VERIF_BUDGET_MS", 5000)
	maxRuns := envInt("VERIF_MAXRUNS", 1<<30)
	outDir := os.Getenv("VERIF_OUT")
	if outDir == "" {
		outDir = "."
	}
	maxViol := envInt("VERIF_MAXVIOL", 12)
	start := time.Now()
	sum := &WorkerSummary{Profile: name, Seed: seed, Worker: worker, Faults: map[string]int{}, Probes: map[string]int{}, OtherProps: map[string]int{}, Strategies: map[string]int{}}
	digests := map[string]bool{}
	found := map[string]*FoundViolation{}
	sigs := map[string]bool{}
	var hit, parked []bool
	run0 := envInt("VERIF_RUN0", 0)
	mainLoop := func() {
		for run := run0; run < run0+maxRuns; run++ {
			if time.Since(start) > time.Duration(budgetMs)*time.Millisecond {
				break
			}
			rs := SeedFor(seed, name, worker, run)
			o := runOne(t, p, rs, nil)
			if dd := os.Getenv("VERIF_DUMP_DIR"); dd != "" && lastResult != nil {
				f, _ := os.Create(filepath.Join(dd, fmt.Sprintf("run%d.txt", run)))
				for _, e := range lastResult.H.Evs {
					b, _ := json.Marshal(e)
					fmt.Fprintln(f, string(b))
				}
				f.Close()
			}
			if dl := os.Getenv("VERIF_DIGEST_LOG"); dl != "" {
				// one token per run: the execution digest plus the verdicts (sorted fingerprints), so that the
				// determinism self-test also covers the oracles
				var fps []string
				for _, v := range o.Violations {
					fps = append(fps, v.Fingerprint())
				}
				sort.Strings(fps)
				f, _ := os.OpenFile(dl, os.O_APPEND|os.O_CREATE|os.O_WRONLY, 0644)
				fmt.Fprintf(f, "%s/%s\n", o.Digest, strings.ReplaceAll(strings.Join(fps, "&"), " ", "_"))
				f.Close()
			}
			sum.Runs++
			sum.Steps += int64(o.Stats.Steps)
			sum.Decisions += int64(o.Stats.Decisions)
			sum.Preempts += int64(o.Stats.Preempts)
			sum.SimMs += o.Stats.SimMs
			for k, v := range o.Stats.Faults {
				sum.Faults[k] += v
			}
			if o.Stats.Truncated {
				sum.Truncated++
			}
			if o.Leak {
				sum.Leaks++
			}
			for _, pr := range o.Probes {
				sum.Probes[pr]++
			}
			if o.Relevant {
				sum.Relevant++
				digests[o.Digest] = true
			}
			for _, s := range o.StateSigs {
				sigs[s] = true
			}
			for _, v := range o.Other {
				sum.OtherProps[v.Property+"/"+v.Class]++
			}
			if o.Replay != nil && o.Replay.Plan != nil {
				sum.Strategies[fmt.Sprintf("strategy%d/arm%d", o.Replay.Plan.Cfg.Strategy, o.Replay.Plan.Cfg.ArmMode)]++
			}
			if len(o.SiteHits) > 0 {
				if hit == nil {
					hit = make([]bool, len(o.SiteHits))
					parked = make([]bool, len(o.SiteHits))
				}
				for i := range o.SiteHits {
					if i < len(hit) {
						if o.SiteHits[i] > 0 {
							hit[i] = true
						}
						if o.SitePark[i] > 0 {
							parked[i] = true
						}
					}
				}
			}
			if len(sum.Samples) < 2 && o.Relevant && o.Sample != nil {
				sum.Samples = append(sum.Samples, o.Sample)
			}
			for _, v := range o.Violations {
				fp := v.Fingerprint()
				if fv := found[fp]; fv != nil {
					fv.Count++
					continue
				}
				if len(found) >= maxViol {
					continue
				}
				rf := o.Replay
				if r2 := o.ReplayFor[fp]; r2 != nil {
					rf = r2
				}
				rf.Seed, rf.Worker, rf.Run = seed, worker, run
				vv := v
				rf.Violation = &vv
				path := filepath.Join(outDir, fmt.Sprintf("viol-%s-w%d-r%d-%d.json", name, worker, run, len(found)))
				cp := *rf
				_ = writeJSON(path, &cp)
				found[fp] = &FoundViolation{Fingerprint: fp, V: v, Replay: path, Count: 1}
			}
		}
	}
	flush := func() {
		sum.Digests, sum.StateSigs, sum.Violations, sum.SitesHit, sum.SitesParked = nil, nil, nil, nil, nil
		for d := range digests {
			sum.Digests = append(sum.Digests, d)
		}
		sort.Strings(sum.Digests)
		for s := range sigs {
			sum.StateSigs = append(sum.StateSigs, s)
		}
		sort.Strings(sum.StateSigs)
		var fps []string
		for fp := range found {
			fps = append(fps, fp)
		}
		sort.Strings(fps)
		for _, fp := range fps {
			sum.Violations = append(sum.Violations, *found[fp])
		}
		for i := range hit {
			if hit[i] {
				sum.SitesHit = append(sum.SitesHit, i)
			}
			if parked[i] {
				sum.SitesParked = append(sum.SitesParked, i)
			}
		}
		sum.NumSites = verifsim.NumSites()
		sum.WallS = time.Since(start).Seconds()
		if err := writeJSON(filepath.Join(outDir, fmt.Sprintf("summary-%s-w%d.json", name, worker)), sum); err != nil {
			fmt.Println("TOOLING cannot write summary:", err)
			os.Exit(2)
		}
	}
	workerFlush = flush
	mainLoop()
	flush()
}

// workerFlush writes the worker's summary as it stands (used by the real-time hang watchdog of the
// free-running engine before it gives up on the process).
var workerFlush func()

func loadReplay(path string) (*ReplayFile, error) {
	b, err := os.ReadFile(path)
	if err != nil {
		return nil, err
	}
	rf := &ReplayFile{}
	if err := json.Unmarshal(b, rf); err != nil {
		return nil, err
	}
	return rf, nil
}

func matches(v Violation, target *Violation) bool {
	if target == nil {
		return true
	}
	return v.Fingerprint() == target.Fingerprint()
}

// ReplayMain re-executes a replay file and reports whether its violation reproduces.
// Output lines: REPRODUCED <fingerprint> / NOT-REPRODUCED / DIGEST <d> / DIGEST-MISMATCH.
func ReplayMain(t *testing.T) {
	path := os.Getenv("VERIF_REPLAY")
	rf, err := loadReplay(path)
	if err != nil {
		fmt.Println("TOOLING cannot load replay:", err)
		os.Exit(2)
	}
	p := profiles[rf.Profile]
	if p == nil {
		fmt.Println("TOOLING unknown profile", rf.Profile)
		os.Exit(2)
	}
	o := runOne(t, p, rf.RunSeed, rf)
	fmt.Println("DIGEST", o.Digest)
	if rf.Digest != "" && o.Digest != rf.Digest {
		fmt.Println("DIGEST-MISMATCH recorded", rf.Digest)
	}
	rep := false
	for _, v := range o.Violations {
		if matches(v, rf.Violation) {
			rep = true
			fmt.Println("REPRODUCED", v.Fingerprint())
			fmt.Println("DETAIL", strings.ReplaceAll(v.Detail, "\n", " | "))
		}
	}
	if !rep {
		fmt.Println("NOT-REPRODUCED")
	}
	for _, v := range o.Violations {
		if !matches(v, rf.Violation) {
			fmt.Println("OTHER-VIOLATION", v.Fingerprint())
		}
	}
	if os.Getenv("VERIF_DUMP") != "" {
		if res := lastResult; res != nil {
			fmt.Println("OVERLAPPING-CONNECTS", overlappingConnects(res))
			for _, e := range res.H.Evs {
				b, _ := json.Marshal(e)
				fmt.Println("EV", string(b))
			}
		}
	}
}

var lastResult *Result
