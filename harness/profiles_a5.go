package harness

import (
	"fmt"
	"sort"
	"strings"

	"verifharness/refcodec"
)

// ---------------------------------------------------------------------------------------------------
// C35: connected-client limit

func genC35(t *Tape) *Plan {
	k := DefaultKnobs()
	k.Slots = 6
	k.IDs = []string{"a", "b", "c", "d", "a", "e"}
	k.CleanPct = 100
	k.V5Pct = 50
	g := NewGen(t, &k, "C35")
	cfg := &g.plan.Cfg
	GenSchedConfig(t, cfg)
	cfg.MaxClients = int64(1 + t.Draw("c35.limit", 4))
	if t.Draw("c35.focus", 4) > 0 {
		cfg.ArmMode = 3
		cfg.ArmFocus = []string{"attachClient"}
		cfg.HoldPct = []int{10, 30, 60}[t.Draw("c35.hold", 3)]
		cfg.HoldMax = 12
		if cfg.Strategy == 0 {
			cfg.Strategy = 1
		}
	}
	n := 5 + t.Draw("c35.len", 10)
	for len(g.plan.Ops) < n {
		slot := t.Draw("op.slot", k.Slots)
		switch t.Pick("c35.kind", []int{6, 1, 2, 1}) {
		case 0:
			g.Connect(slot)
			g.plan.Ops[len(g.plan.Ops)-1].Concurrent = t.Draw("c35.burst", 4) != 0
		case 1:
			g.Disconnect(slot)
		case 2:
			g.Drop(slot)
			if len(g.plan.Ops) > 0 {
				g.plan.Ops[len(g.plan.Ops)-1].Concurrent = t.Draw("c35.dropconc", 2) == 0
			}
		case 3:
			g.ensureConnected(slot)
			g.add(Op{Kind: "ping", Slot: slot, Pkt: &refcodec.Packet{Type: refcodec.PINGREQ}})
		}
	}
	g.plan.Ops[len(g.plan.Ops)-1].Concurrent = false
	return g.plan
}

func checkC35(r *Result) []Violation {
	var out []Violation
	limit := r.Plan.Cfg.MaxClients
	if limit == 0 {
		return nil
	}
	// established = success CONNACK written and connection not yet closed (by either side)
	type ev struct {
		seq   int
		delta int
		conn  int
	}
	var evs []ev
	for _, c := range r.Ex.Conns {
		ca := connack(c)
		if ca == nil {
			continue
		}
		if ca.P.ReasonCode == 0 {
			evs = append(evs, ev{ca.Seq, 1, c.Idx})
			end := -1
			for _, e := range r.H.Evs {
				if e.Kind == "close" && e.Conn == c.Idx {
					end = e.Seq
					break
				}
			}
			if end >= 0 {
				evs = append(evs, ev{end, -1, c.Idx})
			}
		} else if verOK(c, r) {
			// refused for capacity must use the right code
			want := byte(0x89)
			if c.Ver < 5 {
				want = 0x03
			}
			if (ca.P.ReasonCode == 0x89 || ca.P.ReasonCode == 0x03 || ca.P.ReasonCode == 0x97 || ca.P.ReasonCode == 0x88) && ca.P.ReasonCode != want {
				out = append(out, viol("C35", "wrong-refusal-code", fmt.Sprintf("conn %d (MQTT %d) refused with CONNACK 0x%02x, expected 0x%02x", c.Idx, c.Ver, ca.P.ReasonCode, want), ca.Seq, "ver", verClass(c.Ver)))
			}
		}
	}
	sort.SliceStable(evs, func(i, j int) bool {
		if evs[i].seq != evs[j].seq {
			return evs[i].seq < evs[j].seq
		}
		return evs[i].delta < evs[j].delta
	})
	n := 0
	reported := false
	for _, e := range evs {
		n += e.delta
		if int64(n) > limit && !reported {
			reported = true
			out = append(out, viol("C35", "limit-exceeded", fmt.Sprintf("%d connections established at once (seq %d), configured maximum %d", n, e.seq, limit), e.seq, "limit", fmt.Sprint(limit), "over", fmt.Sprint(int64(n)-limit)))
		}
	}
	return out
}

func relevantC35(r *Result) (bool, []string) {
	var probes []string
	ok, refused := 0, 0
	for _, c := range r.Ex.Conns {
		if ca := connack(c); ca != nil {
			if ca.P.ReasonCode == 0 {
				ok++
			} else {
				refused++
			}
		}
	}
	if refused > 0 {
		probes = append(probes, "refused-at-limit")
	}
	if r.Stats.Holds > 0 {
		probes = append(probes, "held-in-attachClient")
	}
	return ok >= 1 && len(r.Ex.Conns) >= 2, probes
}

// ---------------------------------------------------------------------------------------------------
// C36: shutdown

func genC36(t *Tape) *Plan {
	k := DefaultKnobs()
	k.Slots = 5
	k.IDs = []string{"a", "b", "c", "d", "a"}
	k.CleanPct = 70
	k.V5Pct = 60
	k.KeepAlives = []uint16{0, 0, 3}
	g := NewGen(t, &k, "C36")
	cfg := &g.plan.Cfg
	GenSchedConfig(t, cfg)
	cfg.Listener = "tcp"
	if t.Draw("c36.focus", 3) > 0 {
		cfg.ArmMode = 3
		cfg.ArmFocus = []string{"attachClient", "Close", "closeListenerClients", "CloseAll", "Serve"}
		cfg.HoldPct = []int{0, 20, 40}[t.Draw("c36.hold", 3)]
		if cfg.Strategy == 0 {
			cfg.Strategy = 1
		}
	}
	n := 3 + t.Draw("c36.len", 8)
	closeAt := t.Draw("c36.closeat", n+1)
	for i := 0; i < n; i++ {
		if i == closeAt {
			g.plan.Ops = append(g.plan.Ops, Op{Kind: "server_close", Concurrent: t.Draw("c36.conc", 3) != 0})
		}
		slot := t.Draw("op.slot", k.Slots)
		switch t.Pick("c36.kind", []int{6, 2, 1, 2, 2}) {
		case 4:
			// a slow client: the connection is opened and only a prefix (possibly empty) of its CONNECT arrives;
			// the handler is reading when shutdown begins
			full := refcodec.Encode(&refcodec.Packet{Type: refcodec.CONNECT, ProtoVer: 4, ClientID: "slow", CleanStart: true}, 4, refcodec.EncOpts{})
			g.plan.Ops = append(g.plan.Ops, Op{Kind: "connect", Slot: 6 + t.Draw("c36.slowslot", 2), Raw: full[:t.Draw("c36.prefix", len(full))], Note: "slow"})
		case 0:
			g.Connect(slot)
			g.plan.Ops[len(g.plan.Ops)-1].Concurrent = t.Draw("c36.burst", 2) == 0
			if t.Draw("c36.redial", 3) == 0 {
				// an auto-reconnecting client: dials again the moment it reads the shutdown DISCONNECT, that is while
				// the shutdown sweep is still running
				g.plan.Ops[len(g.plan.Ops)-1].Note = "auto-reconnect"
			}
		case 1:
			g.ensureConnected(slot)
			g.Subscribe(slot)
		case 2:
			g.Drop(slot)
		case 3:
			g.ensureConnected(slot)
			g.Publish(slot)
		}
	}
	if closeAt >= n {
		g.plan.Ops = append(g.plan.Ops, Op{Kind: "server_close"})
	}
	// a connection attempt after shutdown
	g.plan.Ops = append(g.plan.Ops, Op{Kind: "connect", Slot: 8, Pkt: &refcodec.Packet{Type: refcodec.CONNECT, ProtoVer: 4, ClientID: "late", CleanStart: true}, Note: "late"})
	g.plan.Ops[len(g.plan.Ops)-1].Concurrent = false
	return g.plan
}

func checkC36(r *Result) []Violation {
	var out []Violation
	ex := r.Ex
	closeOp := -1
	for i, op := range r.Plan.Ops {
		if op.Kind == "server_close" {
			closeOp = i
		}
	}
	if closeOp < 0 {
		return nil
	}
	// did Close return?
	ret := -1
	for _, e := range r.H.Evs {
		if e.Kind == "api" && e.Str == "close-returned" && e.Op == closeOp {
			ret = e.Seq
		}
	}
	// every listener stops accepting: the listener is stopped before the shutdown sweep over its clients begins
	// (the first DISCONNECT 0x8B is a witness that the sweep is running), so a connection dialled after that
	// instant is never handed to a connection handler
	sweep := -1
	for _, c := range ex.Conns {
		for _, pr := range c.Pkts {
			if pr.P.Type == refcodec.DISCONNECT && pr.P.ReasonCode == 0x8B && pr.Seq > r.Ex.opSeq[closeOp] && (sweep < 0 || pr.Seq < sweep) {
				sweep = pr.Seq
			}
		}
	}
	if sweep >= 0 {
		for _, c := range ex.Conns {
			if c.openSeq <= sweep {
				continue
			}
			c.mu.Lock()
			started, at := c.readStarted, c.firstReadSeq
			c.mu.Unlock()
			if started {
				out = append(out, viol("C36", "accepted-after-listener-stopped", fmt.Sprintf("conn %d was dialled (seq %d) after the shutdown sweep had begun (first DISCONNECT 0x8B at seq %d) and was still handed to a connection handler (first read at seq %d)", c.Idx, c.openSeq, sweep, at), at))
			}
		}
	}
	if d := ex.Deadlock; d != nil && d.OnlyWG {
		// Close waits for handlers that nobody will ever end
		var open []string
		for _, c := range ex.Conns {
			if !c.isClosed() {
				st := "established"
				if connack(c) == nil {
					st = "pre-connect"
				}
				open = append(open, fmt.Sprintf("conn%d(%s)", c.Idx, st))
			}
		}
		kinds := map[string]bool{}
		for _, o := range open {
			if strings.Contains(o, "pre-connect") {
				kinds["pre-connect"] = true
			} else {
				kinds["established"] = true
			}
		}
		var ks []string
		for k := range kinds {
			ks = append(ks, k)
		}
		sort.Strings(ks)
		out = append(out, viol("C36", "close-never-returns", fmt.Sprintf("Server.Close blocks forever: connections %v are still open and nothing will close them (%s)", open, strings.Join(d.Tasks, "; ")), -1, "left_open", strings.Join(ks, "+")))
		return out
	}
	if ret < 0 {
		return out
	}
	// when Close returned: every connection accepted before it is closed by the broker
	for _, c := range ex.Conns {
		if c.openSeq > ret {
			continue
		}
		bc := brokerCloseSeq(r.H, c.Idx)
		pc := peerCloseSeq(r.H, c.Idx)
		if (bc < 0 || bc > ret) && (pc < 0 || pc > ret) {
			st := "established"
			if connack(c) == nil {
				st = "pre-connack"
			}
			out = append(out, viol("C36", "connection-open-after-close", fmt.Sprintf("conn %d (%s) is still open when Server.Close returned (seq %d)", c.Idx, st, ret), ret, "state", st, "handler", handlerAt(c, r.Ex.opSeq[closeOp], ret)))
		}
		// MQTT 5 established clients get DISCONNECT 0x8B first
		if ca := connack(c); ca != nil && ca.P.ReasonCode == 0 && c.Ver == 5 && ca.Seq < r.Ex.opSeq[closeOp] && (pc < 0 || pc > ret) {
			tookOver := false
			got := false
			for _, pr := range c.Pkts {
				if pr.P.Type == refcodec.DISCONNECT {
					if pr.P.ReasonCode == 0x8B {
						got = true
					} else {
						tookOver = true
					}
				}
			}
			if !got && !tookOver && bc > r.Ex.opSeq[closeOp] {
				out = append(out, viol("C36", "no-shutdown-disconnect", fmt.Sprintf("conn %d (MQTT 5) was closed by the shutdown without DISCONNECT 0x8B", c.Idx), bc))
			}
		}
	}
	// no handler finishes after Close returned (Close waits for all of them)
	for _, e := range r.H.Evs {
		if e.Seq > ret && e.Kind == "hook" && e.Str == "disconnect" {
			h := "unknown"
			if e.Conn >= 0 && e.Conn < len(ex.Conns) {
				h = handlerAt(ex.Conns[e.Conn], r.Ex.opSeq[closeOp], ret)
			}
			out = append(out, viol("C36", "handler-finished-after-close", fmt.Sprintf("a connection handler (client %q) was still running after Server.Close returned", e.Str2), e.Seq, "handler", h))
			break
		}
	}
	// nothing is accepted afterwards
	for _, c := range ex.Conns {
		if c.openSeq > ret {
			if ca := connack(c); ca != nil {
				out = append(out, viol("C36", "served-after-close", fmt.Sprintf("conn %d opened after Server.Close returned and was answered with %s", c.Idx, ca.P), ca.Seq))
			}
		}
	}
	return out
}

// handlerAt says when the broker's handler of connection c began to run (its first read) relative to the
// shutdown: before Close was called, while Close was running, or not before Close returned.
func handlerAt(c *Conn, closeCalled, closeReturned int) string {
	c.mu.Lock()
	defer c.mu.Unlock()
	switch {
	case !c.readStarted || c.firstReadSeq > closeReturned:
		return "not-started"
	case c.firstReadSeq < closeCalled:
		return "started-before-close-call"
	}
	return "started-during-close"
}

func relevantC36(r *Result) (bool, []string) {
	var probes []string
	est := 0
	for _, c := range r.Ex.Conns {
		if ca := connack(c); ca != nil && ca.P.ReasonCode == 0 {
			est++
		}
		for _, pr := range c.Pkts {
			if pr.P.Type == refcodec.DISCONNECT && pr.P.ReasonCode == 0x8B {
				probes = append(probes, "disconnect-0x8B")
			}
		}
	}
	for _, e := range r.H.Evs {
		if e.Kind == "api" && e.Str == "close-returned" {
			probes = append(probes, "close-returned")
		}
	}
	return est >= 1, probes
}

// ---------------------------------------------------------------------------------------------------
// C38: $SYS statistics

func genC38(t *Tape) *Plan {
	k := DefaultKnobs()
	k.Slots = 4
	k.IDs = []string{"a", "b", "c", "a"}
	k.Topics = []string{"t", "t/a", "u"}
	k.Filters = []string{"t", "t/#", "#", "u"}
	k.SharedFilters = []string{"$share/g/t"}
	k.Ops = 22
	k.WConnect, k.WSub, k.WUnsub, k.WPub, k.WDisc, k.WDrop, k.WAdv, k.WAck = 3, 5, 4, 7, 1, 2, 2, 2
	k.RetainPct = 40
	k.CleanPct = 50
	k.ExpiryChoices = []uint32{0xFFFFFFFF, 0, 2, 300}
	k.ManualAckPct = 40
	k.QosW = [3]int{2, 2, 2}
	k.MsgExpiryChoices = []uint32{0, 0, 2}
	g := NewGen(t, &k, "C38")
	cfg := &g.plan.Cfg
	GenSchedConfig(t, cfg)
	cfg.MaxInflight = []uint16{0, 2}[t.Draw("c38.maxinflight", 2)]
	cfg.SysInterval = []int64{0, 1}[t.Draw("c38.sys", 2)]
	// a client limit below the number of clients of the run: refused connection attempts are part of the history
	// the counters have to survive
	cfg.MaxClients = []int64{0, 0, 2, 3}[t.Draw("c38.maxclients", 4)]
	n := 8 + t.Draw("c38.len", 15)
	for len(g.plan.Ops) < n {
		if t.Draw("c38.clear", 8) == 0 {
			slot := t.Draw("op.slot", k.Slots)
			g.ensureConnected(slot)
			i := g.Publish(slot)
			g.plan.Ops[i].Pkt.Retain = true
			g.plan.Ops[i].Pkt.Payload = ""
		} else {
			g.Step()
		}
	}
	g.plan.Ops[len(g.plan.Ops)-1].Concurrent = false
	return g.plan
}

func checkC38(r *Result) []Violation {
	var out []Violation
	seen := map[string]bool{}
	add := func(v Violation) {
		k := v.Class + fmt.Sprint(v.Features)
		if !seen[k] {
			seen[k] = true
			out = append(out, v)
		}
	}
	lastOpKind := ""
	for _, e := range r.H.Evs {
		if e.Kind == "op" {
			lastOpKind = e.Str
		}
		if e.Kind == "teardown" {
			break
		}
		if e.Kind != "quiesce" || e.Probe == nil {
			continue
		}
		p := e.Probe
		// actual number of established, open connections as the harness sees them
		est := 0
		for _, c := range r.Ex.Conns {
			ca := connack(c)
			if ca == nil || ca.P.ReasonCode != 0 || ca.Seq > e.Seq {
				continue
			}
			bc, pc := brokerCloseSeq(r.H, c.Idx), peerCloseSeq(r.H, c.Idx)
			if (bc >= 0 && bc <= e.Seq) || (pc >= 0 && pc <= e.Seq) {
				continue
			}
			est++
		}
		if p.Connected < 0 || p.Subscriptions < 0 || p.Retained < 0 || p.Inflight < 0 {
			add(viol("C38", "negative-counter", fmt.Sprintf("at seq %d: connected=%d subscriptions=%d retained=%d inflight=%d", e.Seq, p.Connected, p.Subscriptions, p.Retained, p.Inflight), e.Seq,
				"which", negWhich(p), "after", lastOpKind))
		}
		if int(p.Connected) != est {
			add(viol("C38", "clients-connected", fmt.Sprintf("at seq %d: reported clients connected %d, established open connections %d", e.Seq, p.Connected, est), e.Seq, "after", lastOpKind, "sign", sign(int(p.Connected)-est)))
		}
		if int(p.Subscriptions) != p.ActClientSubs+p.ActSharedSubs {
			add(viol("C38", "subscriptions", fmt.Sprintf("at seq %d: reported subscriptions %d, index holds %d client + %d shared", e.Seq, p.Subscriptions, p.ActClientSubs, p.ActSharedSubs), e.Seq, "after", lastOpKind, "sign", sign(int(p.Subscriptions)-p.ActClientSubs-p.ActSharedSubs)))
		}
		if int(p.Retained) != p.ActRetained {
			add(viol("C38", "retained", fmt.Sprintf("at seq %d: reported retained %d, retained store holds %d (%v)", e.Seq, p.Retained, p.ActRetained, p.RetainedTopics), e.Seq, "after", lastOpKind, "sign", sign(int(p.Retained)-p.ActRetained), "sys", fmt.Sprint(r.Plan.Cfg.SysInterval == 1)))
		}
		if int(p.Inflight) != p.ActInflight {
			add(viol("C38", "inflight", fmt.Sprintf("at seq %d: reported in-flight %d, sessions hold %d", e.Seq, p.Inflight, p.ActInflight), e.Seq, "after", lastOpKind, "sign", sign(int(p.Inflight)-p.ActInflight)))
		}
	}
	return out
}

func negWhich(p *Probe) string {
	var w []string
	if p.Connected < 0 {
		w = append(w, "connected")
	}
	if p.Subscriptions < 0 {
		w = append(w, "subscriptions")
	}
	if p.Retained < 0 {
		w = append(w, "retained")
	}
	if p.Inflight < 0 {
		w = append(w, "inflight")
	}
	return strings.Join(w, "+")
}

func sign(d int) string {
	if d > 0 {
		return "over"
	}
	return "under"
}

func relevantC38(r *Result) (bool, []string) {
	probes := map[string]bool{}
	for _, e := range r.H.Evs {
		if e.Kind == "quiesce" && e.Probe != nil {
			p := e.Probe
			if p.ActInflight > 0 {
				probes["inflight>0"] = true
			}
			if p.ActRetained > 0 {
				probes["retained>0"] = true
			}
			if p.ActClientSubs+p.ActSharedSubs > 0 {
				probes["subs>0"] = true
			}
		}
	}
	var ps []string
	for p := range probes {
		ps = append(ps, p)
	}
	return r.Stats.Quiesces > 4, ps
}

// ---------------------------------------------------------------------------------------------------
// C34: accepted output is flushed; drops are reported

func genC34(t *Tape) *Plan {
	k := DefaultKnobs()
	k.Slots = 3
	k.IDs = []string{"s", "p", "q"}
	k.Topics = []string{"t", "u"}
	k.Filters = []string{"t", "#", "u"}
	k.Ops = 22
	k.WConnect, k.WSub, k.WUnsub, k.WPub, k.WDisc, k.WDrop, k.WStall, k.WFailWrite, k.WAck = 1, 3, 0, 12, 0, 0, 1, 1, 2
	k.WPing = 2 // direct replies (PINGRESP, like PUBACK / SUBACK) interleaved with queued publishes
	k.CleanPct = 100
	k.V5Pct = 70
	k.PadMax = 60
	k.MaxPktChoices = []uint32{0, 0, 40, 60}
	k.ConcPct = []int{0, 40, 70}[t.Draw("c34.conc", 3)]
	k.QosW = [3]int{3, 2, 1}
	k.SubQosW = [3]int{2, 2, 1}
	k.ManualAckPct = 25
	g := NewGen(t, &k, "C34")
	cfg := &g.plan.Cfg
	GenSchedConfig(t, cfg)
	cfg.WriteBuf = []int{8, 16, 32, 64}[t.Draw("c34.writebuf", 4)]
	cfg.WritesPending = int32(1 + t.Draw("c34.wp", 4))
	cfg.MaxInflight = []uint16{0, 0, 2}[t.Draw("c34.maxinflight", 3)]
	if cfg.Strategy == 0 {
		cfg.Strategy = 1
	}
	cfg.ArmMode = []int{1, 3}[t.Draw("c34.arm", 2)]
	cfg.ArmFocus = []string{"WritePacket", "WriteLoop", "publishToClient", "flushOutbuf"}
	g.Connect(0)
	g.Subscribe(0)
	if t.Draw("c34.shape", 3) == 0 {
		// slow-consumer skeleton: the subscriber (subscribed to everything) stops reading, publishes pile up behind
		// the blocked write, the subscriber sends requests that are answered directly (PINGRESP / PUBACK), then it
		// reads again; the random tail follows. The operations run one after the other; what the handlers do once
		// the subscriber reads again is decided by the schedule tape.
		first := len(g.plan.Ops)
		for i := range g.plan.Ops {
			if g.plan.Ops[i].Kind == "subscribe" && g.plan.Ops[i].Pkt != nil && len(g.plan.Ops[i].Pkt.Filters) > 0 {
				g.plan.Ops[i].Pkt.Filters[0].Filter = "#"
			}
			g.plan.Ops[i].Concurrent = false
		}
		g.Connect(1)
		g.add(Op{Kind: "stall", Slot: 0})
		for i, n := 0, 2+t.Draw("c34.burst", 3); i < n; i++ {
			g.Publish(1)
		}
		for i, n := 0, 1+t.Draw("c34.direct", 2); i < n; i++ {
			if t.Draw("c34.directkind", 2) == 0 {
				g.add(Op{Kind: "ping", Slot: 0, Pkt: &refcodec.Packet{Type: refcodec.PINGREQ}})
			} else {
				g.Publish(0)
			}
		}
		g.add(Op{Kind: "unstall", Slot: 0})
		g.add(Op{Kind: "advance", Ms: 10})
		for i := first; i < len(g.plan.Ops); i++ {
			g.plan.Ops[i].Concurrent = false
		}
	}
	p := g.Run()
	// let every stalled writer go and come to rest
	for s := 0; s < k.Slots; s++ {
		p.Ops = append(p.Ops, Op{Kind: "unstall", Slot: s})
	}
	p.Ops = append(p.Ops, Op{Kind: "ping", Slot: 1, Pkt: &refcodec.Packet{Type: refcodec.PINGREQ}})
	return p
}

func checkC34(r *Result) []Violation {
	var out []Violation
	// at every quiescent point at which the connection's writer is not held by an injected stall: everything
	// reported as sent (OnPacketSent) is on the wire
	if r.Stats.Truncated || r.Ex.Deadlock != nil {
		return nil
	}
	n := len(r.Ex.Conns)
	wire := make([]int64, n)
	reported := make([]int64, n)
	stalled := make([]bool, n)
	closed := make([]bool, n)
	writeFault := make([]bool, n)
	flagged := make([]bool, n)
	for _, e := range r.H.Evs {
		if e.Kind == "teardown" {
			break
		}
		if e.Conn >= 0 && e.Conn < n {
			switch {
			case e.Kind == "hook" && e.Str == "sent":
				reported[e.Conn]++ // packets, not bytes: OnPacketSent receives an empty slice for directly written packets
			case e.Kind == "stall-on":
				stalled[e.Conn] = true
			case e.Kind == "stall-off":
				stalled[e.Conn] = false
			case e.Kind == "close":
				closed[e.Conn] = true
			case e.Kind == "fault" && (e.Str == "net.write_error" || e.Str == "net.short_write"):
				writeFault[e.Conn] = true
			}
		}
		if e.Kind != "quiesce" {
			continue
		}
		for _, c := range r.Ex.Conns {
			i := c.Idx
			if flagged[i] || stalled[i] || closed[i] {
				continue
			}
			wire[i] = 0
			for _, pr := range c.Pkts {
				if pr.Seq <= e.Seq {
					wire[i]++ // packets whose last byte had been written to the connection by now
				}
			}
			if reported[i] <= wire[i] {
				continue
			}
			flagged[i] = true
			out = append(out, viol("C34", "reported-sent-but-not-written", fmt.Sprintf("conn %d at quiescence (seq %d): hooks were told %d packets were sent, %d packets are on the wire (%d stranded in a buffer)", c.Idx, e.Seq, reported[i], wire[i], reported[i]-wire[i]), e.Seq,
				"write_fault", fmt.Sprint(writeFault[i]), "maxpkt", fmt.Sprint(connectPkt(c, r) != nil && connectPkt(c, r).Props.Has(refcodec.PMaximumPacketSize))))
		}
	}
	// every must-delivery that did not happen has a drop reported to the hooks
	for _, v := range checkDelivery(r, "C34") {
		out = append(out, v)
	}
	return out
}

func relevantC34(r *Result) (bool, []string) {
	probes := map[string]bool{}
	for _, e := range r.H.Evs {
		if e.Kind == "hook" && e.Str == "publish_dropped" {
			probes["publish-dropped-hook"] = true
		}
		if e.Kind == "fault" {
			probes[e.Str] = true
		}
	}
	var ps []string
	for p := range probes {
		ps = append(ps, p)
	}
	n := 0
	for _, c := range r.Ex.Conns {
		n += len(c.Pkts)
	}
	return n > 6, ps
}

func init() {
	register(&Profile{Name: "C35", Gen: genC35, Check: checkC35, Relevant: relevantC35})
	register(&Profile{Name: "C36", Gen: genC36, Check: checkC36, Relevant: relevantC36})
	register(&Profile{Name: "C38", Gen: genC38, Check: checkC38, Relevant: relevantC38})
	register(&Profile{Name: "C34", Gen: genC34, Check: checkC34, Relevant: relevantC34})
}
