package harness

import (
	"fmt"
	"sort"
	"strings"

	"verifharness/refcodec"
	"verifharness/refmatch"
)

// ---------------------------------------------------------------------------------------------------
// C40: inline client API

func genC40(t *Tape) *Plan {
	k := DefaultKnobs()
	k.Slots = 3
	k.Topics = []string{"a", "a/b", "a/b/c", "b", "$x/y"}
	k.Filters = []string{"a", "a/#", "a/b", "a/+", "#", "+", "a/b/#", "b/#", "+/b"}
	k.Ops = 22
	k.WConnect, k.WSub, k.WUnsub, k.WPub, k.WDisc, k.WDrop, k.WInlinePub, k.WInlineSub, k.WInlineUnsub = 1, 4, 1, 3, 0, 0, 8, 4, 2
	k.RetainPct = 35
	k.CleanPct = 100
	k.QosW = [3]int{2, 2, 2}
	k.SubQosW = [3]int{2, 2, 2}
	k.V5Pct = 60
	g := NewGen(t, &k, "C40")
	cfg := &g.plan.Cfg
	GenSchedConfig(t, cfg)
	cfg.Inline = true
	for s := 0; s < 2; s++ {
		g.Connect(s)
	}
	return g.Run()
}

func checkC40(r *Result) []Violation {
	out := checkInline(r, "C40")
	for _, v := range checkDelivery(r, "C03") {
		if v.Features["inline"] == "true" && (v.Class == "missing-delivery" || v.Class == "duplicate-delivery") {
			v.Property, v.Class = "C40", "inline-publish-"+v.Class
			out = append(out, v)
		}
	}
	// each client subscription receives an inline publish at min(requested, subscription QoS)
	walk(r, func(m *Model, w *Window) {
		if !w.Complete || len(w.Ops) != 1 {
			return
		}
		oi := w.Ops[0]
		op := &r.Plan.Ops[oi]
		if op.Kind != "inline_pub" || op.Pkt == nil || op.Pkt.Payload == "" {
			return
		}
		j := m.judgePublish(w, oi)
		copies := m.copiesOf(w, oi, w.StartSeq, w.EndSeq)
		for id, prs := range copies {
			if len(j.Matching[id]) == 0 || len(j.Shared[id]) > 0 {
				continue
			}
			maxq := byte(0)
			for _, s := range j.Matching[id] {
				if s.Qos() > maxq {
					maxq = s.Qos()
				}
			}
			want := op.Pkt.Qos
			if maxq < want {
				want = maxq
			}
			if r.Plan.Cfg.MaxQos < want {
				want = r.Plan.Cfg.MaxQos
			}
			if prs[0].P.Qos != want {
				out = append(out, viol("C40", "inline-publish-qos", fmt.Sprintf("inline publish op %d (qos %d) delivered to %q at qos %d, expected min(%d, %d) = %d", oi, op.Pkt.Qos, id, prs[0].P.Qos, op.Pkt.Qos, maxq, want), prs[0].Seq,
					"pubqos", fmt.Sprint(op.Pkt.Qos), "subqos", fmt.Sprint(maxq), "got", fmt.Sprint(prs[0].P.Qos)))
			}
		}
	})
	return out
}

func relevantC40(r *Result) (bool, []string) {
	probes := map[string]bool{}
	n := 0
	for _, e := range r.H.Evs {
		if e.Kind == "inline" {
			n++
			probes["inline-handler-invoked"] = true
			if e.Last {
				probes["inline-got-retained"] = true
			}
		}
	}
	for _, op := range r.Plan.Ops {
		if op.Kind == "inline_unsub" {
			probes["inline-unsubscribe"] = true
		}
	}
	var ps []string
	for p := range probes {
		ps = append(ps, p)
	}
	return n >= 1, ps
}

// ---------------------------------------------------------------------------------------------------
// C24: topic aliases

func genC24(t *Tape) *Plan {
	k := DefaultKnobs()
	k.Slots = 3
	k.IDs = []string{"s", "p", "q"}
	k.Topics = []string{"t", "u", "v", "w"}
	k.Filters = []string{"#", "t", "u"}
	k.Ops = 22
	k.WConnect, k.WSub, k.WUnsub, k.WPub, k.WDisc, k.WDrop, k.WAck, k.WStall = 2, 2, 0, 12, 1, 2, 3, 1
	k.V5Pct = 90
	k.CleanPct = 20
	k.ExpiryChoices = []uint32{300}
	k.AliasMaxChoices = []uint16{0, 1, 2, 3}
	k.RecvMaxChoices = []uint16{0, 1, 2}
	k.ManualAckPct = 40
	k.QosW = [3]int{2, 3, 1}
	k.SubQosW = [3]int{1, 3, 1}
	g := NewGen(t, &k, "C24")
	cfg := &g.plan.Cfg
	GenSchedConfig(t, cfg)
	cfg.TopicAliasMax = uint16(t.Draw("c24.servermax", 4))
	cfg.WritesPending = []int32{0, 1, 2}[t.Draw("c24.wp", 3)]
	g.Connect(0)
	g.Subscribe(0)
	if t.Draw("c24.shape", 4) == 0 && cfg.TopicAliasMax > 0 {
		// rebinding skeleton: a publisher binds an alias, binds it again to another topic, then uses the alias alone
		first := len(g.plan.Ops)
		for i := range g.plan.Ops {
			if g.plan.Ops[i].Kind == "subscribe" && g.plan.Ops[i].Pkt != nil && len(g.plan.Ops[i].Pkt.Filters) > 0 {
				g.plan.Ops[i].Pkt.Filters[0].Filter = "#"
			}
		}
		slot := 1
		ci := g.Connect(slot)
		g.plan.Ops[ci].Pkt.ProtoVer = 5
		g.slots[slot].ver = 5
		alias := uint32(1 + t.Draw("c24.rebindalias", int(cfg.TopicAliasMax)))
		topics := []string{"t", "u", "v", "w"}
		a := t.Draw("c24.topicA", len(topics))
		b := (a + 1 + t.Draw("c24.topicB", len(topics)-1)) % len(topics)
		for _, tp := range []string{topics[a], topics[b], ""} {
			i := g.Publish(slot)
			p := g.plan.Ops[i].Pkt
			p.Topic = tp
			p.Props = append(p.Props, refcodec.Prop{ID: refcodec.PTopicAlias, Int: alias})
		}
		for i := first; i < len(g.plan.Ops); i++ {
			g.plan.Ops[i].Concurrent = false
		}
	}
	n := 8 + t.Draw("c24.len", 14)
	for len(g.plan.Ops) < n {
		if t.Draw("c24.inbound", 3) == 0 {
			// inbound alias use: bind, rebind, use, over the maximum, unbound with empty topic
			slot := 1 + t.Draw("c24.slot", 2)
			g.ensureConnected(slot)
			if g.slots[slot].ver != 5 {
				continue
			}
			i := g.Publish(slot)
			p := g.plan.Ops[i].Pkt
			alias := uint32(1 + t.Draw("c24.alias", 4))
			p.Props = append(p.Props, refcodec.Prop{ID: refcodec.PTopicAlias, Int: alias})
			if t.Draw("c24.empty", 2) == 1 {
				p.Topic = ""
			}
		} else {
			g.Step()
		}
	}
	g.plan.Ops[len(g.plan.Ops)-1].Concurrent = false
	return g.plan
}

func checkC24(r *Result) []Violation {
	var out []Violation
	// outbound: receiver-side alias table per connection
	for _, c := range r.Ex.Conns {
		if c.Ver != 5 || !verOK(c, r) {
			continue
		}
		cp := connectPkt(c, r)
		var tam uint32
		if p, ok := cp.Props.Get(refcodec.PTopicAliasMaximum); ok {
			tam = p.Int
		}
		table := map[uint32]string{}
		// a resumed session carries stored copies of messages queued for an earlier connection
		resumed := "false"
		if ca := connack(c); ca != nil && ca.P.SessionPresent {
			resumed = "true"
		}
		// with a small Receive Maximum the PUBLISH that binds an alias can be deferred behind later ones
		rmLimited := "false"
		if p, ok := cp.Props.Get(refcodec.PReceiveMaximum); ok && p.Int <= 3 {
			rmLimited = "true"
		}
		for _, pr := range c.Pkts {
			if pr.P.Type != refcodec.PUBLISH {
				continue
			}
			ap, has := pr.P.Props.Get(refcodec.PTopicAlias)
			how := "live"
			if pr.P.Dup {
				how = "resend"
			}
			if has {
				if tam == 0 {
					out = append(out, viol("C24", "alias-used-though-maximum-0", fmt.Sprintf("conn %d: PUBLISH carries topic alias %d but the client's Topic Alias Maximum is 0", c.Idx, ap.Int), pr.Seq, "resumed", resumed))
				} else if ap.Int > tam {
					out = append(out, viol("C24", "alias-above-client-maximum", fmt.Sprintf("conn %d: topic alias %d exceeds the client's maximum %d", c.Idx, ap.Int, tam), pr.Seq, "resumed", resumed))
				}
			}
			if pr.P.Topic == "" {
				if !has {
					out = append(out, viol("C24", "empty-topic-without-alias", fmt.Sprintf("conn %d: PUBLISH %q with empty topic and no alias", c.Idx, payloadIDOf(pr.P.Payload)), pr.Seq, "how", how))
				} else if _, ok := table[ap.Int]; !ok {
					out = append(out, viol("C24", "alias-not-bound-on-this-connection", fmt.Sprintf("conn %d: PUBLISH %q uses topic alias %d with an empty topic, but no earlier PUBLISH on this connection bound it", c.Idx, payloadIDOf(pr.P.Payload), ap.Int), pr.Seq, "how", how, "resumed", resumed, "rm_limited", rmLimited))
				}
			} else if has {
				table[ap.Int] = pr.P.Topic
			}
		}
	}
	// inbound
	serverMax := uint32(r.Plan.Cfg.TopicAliasMax)
	sent := sentPackets(r)
	for _, c := range r.Ex.Conns {
		if c.Ver != 5 || !verOK(c, r) {
			continue
		}
		bound := map[uint32]string{}
		for _, s := range sent[c.Idx] {
			p := s.P
			if p == nil || p.Type != refcodec.PUBLISH {
				continue
			}
			ap, has := p.Props.Get(refcodec.PTopicAlias)
			if !has {
				continue
			}
			q := firstQuiesceAfter(r.H, s.Seq)
			if q < 0 {
				continue
			}
			// where was it routed? (any connection, payload id)
			var routedTopic []string
			for _, c2 := range r.Ex.Conns {
				for _, pr := range c2.Pkts {
					if pr.P.Type == refcodec.PUBLISH && pr.Seq > s.Seq && payloadIDOf(pr.P.Payload) == payloadIDOf(p.Payload) && p.Payload != "" {
						tp := pr.P.Topic
						routedTopic = append(routedTopic, tp)
					}
				}
			}
			for _, e := range r.H.Evs {
				if e.Seq > s.Seq && e.Seq <= q && e.Kind == "hook" && e.Str == "published" && strings.HasSuffix(e.Str2, "|"+payloadIDOf(p.Payload)) {
					routedTopic = append(routedTopic, "(published)")
				}
			}
			ended := false
			if bc := brokerCloseSeq(r.H, c.Idx); bc >= 0 && bc <= q {
				ended = true
			}
			bad := ""
			switch {
			case ap.Int == 0:
				bad = "alias-0"
			case ap.Int > serverMax:
				bad = "above-server-maximum"
			case p.Topic == "" && bound[ap.Int] == "":
				bad = "unbound-with-empty-topic"
			}
			if bad != "" {
				if len(routedTopic) > 0 {
					out = append(out, viol("C24", "invalid-inbound-alias-routed", fmt.Sprintf("conn %d: PUBLISH %q with topic alias %d (%s; server maximum %d) was routed", c.Idx, payloadIDOf(p.Payload), ap.Int, bad, serverMax), s.Seq, "why", bad))
				}
				if !ended && !stallActive(r, s.Seq, q) {
					out = append(out, viol("C24", "invalid-inbound-alias-not-rejected", fmt.Sprintf("conn %d: PUBLISH %q with topic alias %d (%s; server maximum %d): the connection was not ended with an error", c.Idx, payloadIDOf(p.Payload), ap.Int, bad, serverMax), s.Seq, "why", bad, "qos", fmt.Sprint(p.Qos)))
				}
				break // the connection is (or should be) gone
			}
			if p.Topic != "" {
				bound[ap.Int] = p.Topic
			}
			// a valid alias use resolves to the topic last bound to the alias on this connection
			want := bound[ap.Int]
			for _, tp := range routedTopic {
				if tp != "" && tp != "(published)" && tp != want {
					how := "first-binding"
					if p.Topic == "" {
						how = "alias-only"
					}
					out = append(out, viol("C24", "alias-resolved-to-wrong-topic", fmt.Sprintf("conn %d: PUBLISH %q with topic alias %d (last bound to %q on this connection) was routed to %q", c.Idx, payloadIDOf(p.Payload), ap.Int, want, tp), s.Seq, "how", how))
					break
				}
			}
		}
	}
	return out
}

func relevantC24(r *Result) (bool, []string) {
	probes := map[string]bool{}
	n := 0
	for _, c := range r.Ex.Conns {
		for _, pr := range c.Pkts {
			if pr.P.Type == refcodec.PUBLISH && pr.P.Props.Has(refcodec.PTopicAlias) {
				n++
				if pr.P.Topic == "" {
					probes["outbound-alias-reused"] = true
				} else {
					probes["outbound-alias-bound"] = true
				}
			}
		}
	}
	for _, op := range r.Plan.Ops {
		if op.Kind == "publish" && op.Pkt != nil && op.Pkt.Props.Has(refcodec.PTopicAlias) {
			n++
			probes["inbound-alias"] = true
		}
	}
	var ps []string
	for p := range probes {
		ps = append(ps, p)
	}
	return n >= 1, ps
}

// ---------------------------------------------------------------------------------------------------
// C19: hook chains

func genC19(t *Tape) *Plan {
	k := DefaultKnobs()
	k.Slots = 3
	k.IDs = []string{"p", "s", "q"}
	k.Topics = []string{"t", "u"}
	k.Filters = []string{"#"}
	k.V5Pct = 50
	k.CleanPct = 100
	k.RetainPct = 40
	k.QosW = [3]int{2, 2, 2}
	k.SubQosW = [3]int{0, 0, 1}
	g := NewGen(t, &k, "C19")
	cfg := &g.plan.Cfg
	GenSchedConfig(t, cfg)
	cfg.Auth = "none"
	nh := 1 + t.Draw("c19.nhooks", 3)
	anyAuth, anyACL := false, false
	for i := 0; i < nh; i++ {
		hs := HookSpec{
			OnPublish: []string{"", "modify", "modify", "reject", "ignore", "error", "errcode"}[t.Draw("c19.pub", 7)],
			OnRead:    []string{"", "", "modify", "reject", "error"}[t.Draw("c19.read", 5)],
			Auth:      []string{"", "allow", "deny"}[t.Draw("c19.auth", 3)],
			ACL:       []string{"", "allow", "deny"}[t.Draw("c19.acl", 3)],
		}
		if t.Draw("c19.topic", 3) == 0 {
			hs.Topic = "t"
		}
		if hs.Auth == "allow" {
			anyAuth = true
		}
		if hs.ACL == "allow" {
			anyACL = true
		}
		cfg.Hooks = append(cfg.Hooks, hs)
	}
	// most runs need an admitting hook to get anywhere
	if !anyAuth && t.Draw("c19.forceauth", 4) != 0 {
		cfg.Hooks[len(cfg.Hooks)-1].Auth = "allow"
	}
	if !anyACL && t.Draw("c19.forceacl", 4) != 0 {
		cfg.Hooks[0].ACL = "allow"
	}
	// observer / subscriber
	g.Connect(1)
	g.plan.Ops = append(g.plan.Ops, Op{Kind: "subscribe", Slot: 1, Pkt: &refcodec.Packet{Type: refcodec.SUBSCRIBE, PacketID: 1, Filters: []refcodec.Filter{{Filter: "#", Opts: 2}}}})
	n := 6 + t.Draw("c19.len", 8)
	for len(g.plan.Ops) < n {
		switch t.Draw("c19.kind", 5) {
		case 0:
			// late subscriber: sees what was retained
			g.Connect(2)
			g.plan.Ops = append(g.plan.Ops, Op{Kind: "subscribe", Slot: 2, Pkt: &refcodec.Packet{Type: refcodec.SUBSCRIBE, PacketID: g.pid(2), Filters: []refcodec.Filter{{Filter: "#", Opts: 1}}}})
		default:
			g.Publish(0)
		}
	}
	g.plan.Ops[len(g.plan.Ops)-1].Concurrent = false
	return g.plan
}

func checkC19(r *Result) []Violation {
	var out []Violation
	hooks := r.Plan.Cfg.Hooks
	if len(hooks) == 0 {
		return nil
	}
	admit, permit := false, false
	for _, h := range hooks {
		if h.Auth == "allow" {
			admit = true
		}
		if h.ACL == "allow" {
			permit = true
		}
	}
	// admission = OR over authentication hooks
	for _, c := range r.Ex.Conns {
		if ca := connack(c); ca != nil && verOK(c, r) && validConnect(connectPkt(c, r)) {
			if (ca.P.ReasonCode == 0) != admit {
				out = append(out, viol("C19", "admission-not-or-of-hooks", fmt.Sprintf("conn %d: CONNACK 0x%02x although the authentication hooks say %v (hooks %+v)", c.Idx, ca.P.ReasonCode, admit, hooks), ca.Seq, "admit", fmt.Sprint(admit)))
			}
		}
	}
	if !admit {
		return out
	}
	// per publish: expected fate from the chain semantics
	sent := sentPackets(r)
	for _, c := range r.Ex.Conns {
		for _, s := range sent[c.Idx] {
			p := s.P
			if p == nil || p.Type != refcodec.PUBLISH || s.Op < 0 || p.Payload == "" {
				continue
			}
			orig := p.Payload
			// read chain
			cur := orig
			readRejected := false
			for i, h := range hooks {
				if h.OnRead == "" {
					continue
				}
				applies := h.Topic == "" || h.Topic == p.Topic
				if !applies {
					continue
				}
				switch h.OnRead {
				case "modify":
					cur += fmt.Sprintf("^%d", i)
				case "reject":
					readRejected = true
				case "error":
					// the hook's result is ignored, the chain continues with the previous packet
				}
				if readRejected {
					break
				}
			}
			// what each read hook saw (order and chaining)
			var seenRead []*Ev
			for _, e := range r.H.Evs {
				if e.Kind == "hook" && e.Str == "prog_read" && e.Conn == c.Idx && e.Seq > s.Seq && strings.HasPrefix(e.Str2, orig) {
					seenRead = append(seenRead, e)
				}
			}
			lastIdx := -1
			for _, e := range seenRead {
				if int(e.N) <= lastIdx && len(seenRead) <= len(hooks) {
					out = append(out, viol("C19", "hooks-out-of-order", fmt.Sprintf("conn %d: read hooks ran in order %v for publish %q", c.Idx, idxs(seenRead), orig), e.Seq, "event", "read"))
					break
				}
				lastIdx = int(e.N)
			}
			q := firstQuiesceAfter(r.H, s.Seq)
			if q < 0 {
				continue
			}
			// publish chain outcome
			outcome := "forward"
			pcur := cur
			if !readRejected {
				for i, h := range hooks {
					if h.OnPublish == "" {
						continue
					}
					// every publish hook is invoked; the action applies to its topic only
					if h.Topic != "" && h.Topic != p.Topic {
						continue
					}
					switch h.OnPublish {
					case "modify":
						pcur += fmt.Sprintf("~%d", i)
					case "reject", "ignore", "error", "errcode":
						outcome = h.OnPublish
					}
					if outcome != "forward" {
						break
					}
				}
			} else {
				outcome = "read-rejected"
			}
			if !permit && outcome == "forward" {
				outcome = "acl-denied"
			}
			// observed fate
			delivered := []string{}
			retainedDelivered := false
			for _, c2 := range r.Ex.Conns {
				for _, pr := range c2.Pkts {
					if pr.P.Type == refcodec.PUBLISH && pr.Seq > s.Seq && strings.HasPrefix(pr.P.Payload, orig) && (len(pr.P.Payload) == len(orig) || pr.P.Payload[len(orig)] == '^' || pr.P.Payload[len(orig)] == '~') {
						delivered = append(delivered, pr.P.Payload)
						if pr.P.Retain {
							retainedDelivered = true
						}
					}
				}
			}
			retained := false
			for _, e := range r.H.Evs {
				if e.Kind == "hook" && e.Str == "retain" && e.Seq > s.Seq && e.N == 1 && strings.Contains(e.Str2, "|"+payloadIDOf(orig)) {
					retained = true
				}
			}
			feat := []string{"outcome", outcome, "ver", verClass(c.Ver), "qos", fmt.Sprint(p.Qos)}
			if outcome != "forward" {
				if len(delivered) > 0 {
					out = append(out, viol("C19", "rejected-publish-forwarded", fmt.Sprintf("conn %d: publish %q on %q (%s by the hook chain %+v) was delivered as %v", c.Idx, orig, p.Topic, outcome, hooks, delivered), s.Seq, feat...))
				}
				if (retained || retainedDelivered) && p.Retain {
					out = append(out, viol("C19", "rejected-publish-retained", fmt.Sprintf("conn %d: retained publish %q on %q (%s by the hook chain) was stored as a retained message", c.Idx, orig, p.Topic, outcome), s.Seq, feat...))
				}
			} else if len(delivered) > 0 {
				for _, d := range delivered {
					if d != pcur {
						out = append(out, viol("C19", "hook-chaining", fmt.Sprintf("conn %d: publish %q should reach subscribers as %q after the hook chain %+v, delivered %q", c.Idx, orig, pcur, hooks, d), s.Seq, "ver", verClass(c.Ver)))
						break
					}
				}
			}
		}
	}
	return out
}

func idxs(es []*Ev) []int {
	var x []int
	for _, e := range es {
		x = append(x, int(e.N))
	}
	return x
}

func relevantC19(r *Result) (bool, []string) {
	probes := map[string]bool{}
	for _, h := range r.Plan.Cfg.Hooks {
		if h.OnPublish != "" {
			probes["publish-"+h.OnPublish] = true
		}
		if h.OnRead != "" {
			probes["read-"+h.OnRead] = true
		}
	}
	n := 0
	for _, e := range r.H.Evs {
		if e.Kind == "hook" && strings.HasPrefix(e.Str, "prog_") {
			n++
		}
	}
	var ps []string
	for p := range probes {
		ps = append(ps, p)
	}
	sort.Strings(ps)
	return n >= 2, ps
}

var _ = refmatch.Match

func init() {
	register(&Profile{Name: "C40", Gen: genC40, Check: checkC40, Relevant: relevantC40})
	register(&Profile{Name: "C24", Gen: genC24, Check: checkC24, Relevant: relevantC24})
	register(&Profile{Name: "C19", Gen: genC19, Check: checkC19, Relevant: relevantC19})
}
