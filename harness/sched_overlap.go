package harness

import (
	"os"

	"verifharness/refcodec"
)

var debugOverlap = os.Getenv("VERIF_DEBUG_OVERLAP") != ""

// overlappingConnects reports whether, in this run, two connections with the same client id were inside their
// connection handshake at the same time: from the moment the broker read the CONNECT until it wrote its first
// byte in answer (or itself closed the connection, or the run ended).
func overlappingConnects(r *Result) bool {
	type iv struct {
		id   string
		a, b int
	}
	var ivs []iv
	end := r.H.Len()
	for _, c := range r.Ex.Conns {
		if c.CID == "" {
			continue
		}
		a, b := -1, end
		for _, e := range r.H.Evs {
			if e.Conn != c.Idx {
				continue
			}
			if a < 0 {
				if e.Kind == "hook" && e.Str == "read" && e.Read != nil && e.Read.Type == refcodec.CONNECT {
					a = e.Seq
				}
				continue
			}
			// (a close by the peer does not end the handler: it may still sit in the takeover, blocked elsewhere)
			if e.Kind == "out" || (e.Kind == "close" && e.Str == "broker") {
				b = e.Seq
				break
			}
		}
		if a >= 0 {
			ivs = append(ivs, iv{c.CID, a, b})
		}
	}
	if debugOverlap {
		println("overlap: conns", len(r.Ex.Conns), "intervals", len(ivs))
		for _, v := range ivs {
			println("  ", v.id, v.a, v.b)
		}
	}
	for i := range ivs {
		for j := i + 1; j < len(ivs); j++ {
			if ivs[i].id == ivs[j].id && ivs[i].a < ivs[j].b && ivs[j].a < ivs[i].b {
				return true
			}
		}
	}
	return false
}
