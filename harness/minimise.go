package harness

import (
	"fmt"
	"os"
	"strings"
	"testing"
	"time"
)

func clonePlan(p *Plan) *Plan {
	q := *p
	q.Ops = append([]Op(nil), p.Ops...)
	q.Cfg.ArmFocus = append([]string(nil), p.Cfg.ArmFocus...)
	q.Cfg.Deny = append([]DenyRule(nil), p.Cfg.Deny...)
	q.Cfg.Hooks = append([]HookSpec(nil), p.Cfg.Hooks...)
	return &q
}

// MinimiseMain shrinks a failing replay file while the same violation fingerprint reproduces.
func MinimiseMain(t *testing.T) {
	path := os.Getenv("VERIF_MINIMISE")
	rf, err := loadReplay(path)
	if err != nil {
		fmt.Println("TOOLING cannot load replay:", err)
		os.Exit(2)
	}
	p := profiles[rf.Profile]
	if p == nil {
		fmt.Println("TOOLING unknown profile", rf.Profile)
		os.Exit(2)
	}
	budget := time.Duration(envInt("VERIF_MIN_BUDGET_MS", 20000)) * time.Millisecond
	start := time.Now()
	outPath := os.Getenv("VERIF_MIN_OUT")
	if outPath == "" {
		outPath = strings.TrimSuffix(path, ".json") + ".min.json"
	}
	if rf.Plan == nil || p.Runner != nil {
		// engines with their own case format: re-run and keep as is
		rf.Minimised = false
		_ = writeJSON(outPath, rf)
		fmt.Println("MINIMISED", outPath, "unchanged")
		return
	}
	tries := 0
	var bestOutcome *RunOutcome
	test := func(plan *Plan, sched []uint32) bool {
		tries++
		cand := &ReplayFile{Profile: rf.Profile, Plan: clonePlan(plan), Sched: sched, RunSeed: rf.RunSeed}
		o := runOne(t, p, rf.RunSeed, cand)
		for _, v := range o.Violations {
			if matches(v, rf.Violation) {
				bestOutcome = o
				return true
			}
		}
		return false
	}
	plan := clonePlan(rf.Plan)
	sched := append([]uint32(nil), rf.Sched...)
	if !test(plan, sched) {
		fmt.Println("NOT-REPRODUCED (cannot minimise)")
		os.Exit(3)
	}
	timeUp := func() bool { return time.Since(start) > budget }
	for round := 0; round < 4 && !timeUp(); round++ {
		progress := false
		// 1. schedule: shortest prefix of the tape that still fails (rest = default choices)
		lo, hi := 0, len(sched)
		for lo < hi && !timeUp() {
			mid := (lo + hi) / 2
			if test(plan, sched[:mid]) {
				hi = mid
			} else {
				lo = mid + 1
			}
		}
		if hi < len(sched) && test(plan, sched[:hi]) {
			sched = sched[:hi]
			progress = true
		}
		// 2. delete operations (chunks, then single)
		for size := len(plan.Ops) / 2; size >= 1 && !timeUp(); size /= 2 {
			for i := len(plan.Ops) - size; i >= 0 && !timeUp(); i -= size {
				cand := clonePlan(plan)
				cand.Ops = append(append([]Op(nil), plan.Ops[:i]...), plan.Ops[i+size:]...)
				if len(cand.Ops) > 0 {
					cand.Ops[len(cand.Ops)-1].Concurrent = false
				}
				if test(cand, sched) {
					plan = cand
					progress = true
				} else if test(cand, nil) {
					plan, sched = cand, nil
					progress = true
				}
			}
		}
		// 3. simplify configuration
		simpl := []func(c *Config) bool{
			func(c *Config) bool { ch := c.ChunkPct != 0; c.ChunkPct = 0; return ch },
			func(c *Config) bool { ch := c.MapOrder; c.MapOrder = false; return ch },
			func(c *Config) bool { ch := c.SelOrder; c.SelOrder = false; return ch },
			func(c *Config) bool { ch := c.Strategy != 0; c.Strategy = 0; return ch },
			func(c *Config) bool { ch := c.HoldPct != 0; c.HoldPct = 0; return ch },
			func(c *Config) bool { ch := c.ArmMode != 0; c.ArmMode = 0; return ch },
		}
		for _, f := range simpl {
			if timeUp() {
				break
			}
			cand := clonePlan(plan)
			if !f(&cand.Cfg) {
				continue
			}
			if test(cand, sched) {
				plan = cand
				progress = true
			}
		}
		// 4. zero blocks of the schedule
		for size := len(sched) / 2; size >= 1 && !timeUp(); size /= 2 {
			for i := 0; i+size <= len(sched) && !timeUp(); i += size {
				allZero := true
				for _, v := range sched[i : i+size] {
					if v != 0 {
						allZero = false
					}
				}
				if allZero {
					continue
				}
				cand := append([]uint32(nil), sched...)
				for j := i; j < i+size; j++ {
					cand[j] = 0
				}
				if test(plan, cand) {
					sched = cand
					progress = true
				}
			}
			if size > 64 {
				size = 64
			}
		}
		// 5. clear the concurrent flag of single ops
		for i := range plan.Ops {
			if plan.Ops[i].Concurrent && !timeUp() {
				cand := clonePlan(plan)
				cand.Ops[i].Concurrent = false
				if test(cand, sched) {
					plan = cand
					progress = true
				}
			}
		}
		if !progress {
			break
		}
	}
	// final confirmation run; record the tape actually consumed
	if !test(plan, sched) {
		fmt.Println("TOOLING minimised candidate stopped reproducing")
		os.Exit(2)
	}
	out := bestOutcome.Replay
	out.Property, out.Seed, out.Worker, out.Run, out.RunSeed = rf.Property, rf.Seed, rf.Worker, rf.Run, rf.RunSeed
	for _, v := range bestOutcome.Violations {
		if matches(v, rf.Violation) {
			vv := v
			out.Violation = &vv
		}
	}
	out.Minimised = true
	if lastResult != nil {
		out.Expanded = expand(lastResult)
	}
	_ = writeJSON(outPath, out)
	fmt.Printf("MINIMISED %s ops %d->%d sched %d->%d tries %d\n", outPath, len(rf.Plan.Ops), len(out.Plan.Ops), len(rf.Sched), len(out.Sched), tries)
}

// expand renders the history for human readers of a replay file.
func expand(res *Result) []string {
	var out []string
	for _, e := range res.H.Evs {
		switch e.Kind {
		case "out", "hook":
			continue
		}
		s := fmt.Sprintf("#%d t=%dms %s", e.Seq, e.VT, e.Kind)
		if e.Conn >= 0 {
			s += fmt.Sprintf(" conn%d", e.Conn)
		}
		if e.Op >= 0 {
			s += fmt.Sprintf(" op%d", e.Op)
		}
		if e.Pkt != nil {
			s += " " + e.Pkt.String()
		}
		if e.Str != "" {
			s += " " + e.Str
		}
		if e.Str2 != "" {
			s += " " + e.Str2
		}
		out = append(out, s)
		if len(out) > 400 {
			out = append(out, "...")
			break
		}
	}
	return out
}
