package harness

import (
	"fmt"
	"strings"

	"verifharness/refcodec"
)

// ---------------------------------------------------------------------------------------------------
// C13

func genC13(t *Tape) *Plan {
	k := DefaultKnobs()
	k.Slots = 4
	k.IDs = []string{"a", "b", "a", ""}
	k.Ops = 12
	k.WConnect, k.WSub, k.WPub, k.WDisc, k.WDrop, k.WUnsub = 5, 3, 7, 1, 2, 0
	k.CleanPct = 35
	k.V3Pct = 20
	k.ConcPct = 35
	k.QosW = [3]int{2, 3, 2}
	k.SubQosW = [3]int{1, 3, 2}
	k.Topics = []string{"t", "t/a"}
	k.Filters = []string{"t", "t/#", "#"}
	k.WillPct = 15
	g := NewGen(t, &k, "C13")
	cfg := &g.plan.Cfg
	GenSchedConfig(t, cfg)
	cfg.Auth = []string{"allow", "allow", "perm", "none"}[t.Draw("c13.auth", 4)]
	if cfg.Auth == "perm" && t.Draw("c13.denyb", 2) == 1 {
		cfg.DenyConnect = []string{"b"}
	}
	// bias pre-emption towards session establishment
	if t.Draw("c13.focus", 3) > 0 {
		cfg.ArmMode = 3
		cfg.ArmFocus = []string{"attachClient", "inheritClientSession", "SendConnack"}
		cfg.HoldPct = []int{0, 20, 50}[t.Draw("c13.hold", 3)]
		cfg.HoldMax = 12
		if cfg.Strategy == 0 {
			cfg.Strategy = 2
		}
	}
	n := 4 + t.Draw("c13.len", 9)
	for len(g.plan.Ops) < n {
		if t.Draw("c13.special", 5) == 0 {
			g.invalidConnect(t.Draw("op.slot", k.Slots))
		} else {
			g.Step()
		}
	}
	g.plan.Ops[len(g.plan.Ops)-1].Concurrent = false
	return g.plan
}

// invalidConnect generates a first packet that is not a valid CONNECT.
func (g *Gen) invalidConnect(slot int) {
	t := g.t
	s := g.slots[slot]
	id := s.id
	p := &refcodec.Packet{Type: refcodec.CONNECT, ProtoVer: 4, ClientID: id, CleanStart: t.Draw("inv.clean", 2) == 1}
	op := Op{Kind: "connect", Slot: slot, Pkt: p}
	switch t.Draw("inv.kind", 9) {
	case 0:
		p.ConnReserved = true
	case 1:
		p.ProtoVer = 6
		p.ProtoName = "MQTT"
	case 2:
		p.ProtoName = "MQTX"
	case 3:
		p.HasPassword = true
		p.Password = "pw"
	case 4:
		p.ClientID = ""
		p.CleanStart = false
	case 5: // first packet is not CONNECT at all
		op.Pkt = &refcodec.Packet{Type: refcodec.PINGREQ}
		if t.Draw("inv.first", 2) == 1 {
			op.Pkt = &refcodec.Packet{Type: refcodec.PUBLISH, Topic: "t", Payload: "x"}
		}
	case 6:
		p.ProtoVer = 5
		p.Will = &refcodec.Will{Topic: "t/#", Payload: "w", Qos: 0}
	case 7:
		p.ProtoVer = 5
		p.ConnReserved = true
	case 8:
		p.ProtoVer = 3
		p.ProtoName = "MQTT"
	}
	g.plan.Ops = append(g.plan.Ops, op)
	s.connected = false
}

func relevantC13(r *Result) (bool, []string) {
	var probes []string
	n := 0
	for _, c := range r.Ex.Conns {
		for _, pr := range c.Pkts {
			if pr.P.Type == refcodec.CONNACK {
				n++
				if pr.P.ReasonCode != 0 {
					probes = append(probes, "connack-failure")
				} else if pr.P.SessionPresent {
					probes = append(probes, "session-present")
				}
			}
		}
	}
	if r.Stats.Holds > 0 {
		probes = append(probes, "held-in-establishment")
	}
	return n >= 2, probes
}

// ---------------------------------------------------------------------------------------------------
// C07

func genC07(t *Tape) *Plan {
	k := DefaultKnobs()
	k.Slots = 3
	k.Ops = 16
	k.Topics = []string{"t", "t/a", "$SYS/x", "$SYS/broker/clients", "$share/g/t", "a/+", "#", "$x/y", "deny/w"}
	k.Filters = []string{"t", "t/#", "+/a", "a/b#", "deny/r", "$share/g/t", "$share//t", "$SYS/#", ""}
	k.WConnect, k.WSub, k.WUnsub, k.WPub, k.WDisc, k.WDrop, k.WPing = 1, 4, 3, 8, 0, 0, 2
	k.QosW = [3]int{1, 4, 4}
	k.MultiFilterPct = 30
	k.V3Pct = 15
	k.CleanPct = 70
	g := NewGen(t, &k, "C07")
	cfg := &g.plan.Cfg
	GenSchedConfig(t, cfg)
	cfg.ChunkPct = []int{0, 30, 80}[t.Draw("c07.chunk", 3)]
	cfg.MaxQos = []byte{2, 2, 1, 0}[t.Draw("c07.maxqos", 4)]
	cfg.Auth = "perm"
	cfg.Deny = []DenyRule{{Topic: "deny/w", Write: true}, {Topic: "deny/r", Write: false}}
	if t.Draw("c07.collide", 3) == 0 {
		// the client's packet ids start at 1, like the broker's, and deliveries stay unacknowledged for a while: a
		// request may carry the identifier of a pending delivery in the other direction (the two spaces are independent)
		for _, s := range g.slots {
			s.nextPID = 0
		}
		k.ManualAckPct = 70
		k.SubQosW = [3]int{0, 2, 2}
		if t.Draw("c07.collide.skeleton", 2) == 0 {
			// ... and deliberately: a subscriber leaves one to three deliveries unacknowledged and then sends a QoS 1/2
			// PUBLISH (and, for QoS 2, later the PUBREL) of its own carrying the identifier of one of them. Every one
			// of these requests is owed its response. The random tail follows.
			cfg.MaxQos = 2
			ci := g.Connect(0)
			g.plan.Ops[ci].AckMode = 1
			si := g.Subscribe(0)
			g.plan.Ops[si].Pkt.Filters = []refcodec.Filter{{Filter: "t/#", Opts: byte(1 + t.Draw("c07.collide.subqos", 2))}}
			g.Connect(1)
			np := 1 + t.Draw("c07.collide.n", 3)
			for i := 0; i < np; i++ {
				pi := g.Publish(1)
				p := g.plan.Ops[pi].Pkt
				p.Topic = "t"
				if p.Qos == 0 {
					p.Qos = 1
					p.PacketID = g.pid(1)
				}
			}
			oi := g.Publish(0)
			p := g.plan.Ops[oi].Pkt
			p.Topic = "t/a"
			p.Qos = byte(1 + t.Draw("c07.collide.ownqos", 2))
			p.PacketID = uint16(1 + t.Draw("c07.collide.id", np)) // the broker numbers its deliveries to a client 1, 2, 3, ...
			for i := range g.plan.Ops {
				g.plan.Ops[i].Concurrent = false
			}
		}
	}
	if len(g.plan.Ops) == 0 && t.Draw("c07.slowreader", 4) == 0 {
		// slow-reader skeleton: a subscriber stops reading, deliveries pile up behind the broker's blocked write, the
		// subscriber sends requests of its own (PINGREQ, SUBSCRIBE, QoS 1 PUBLISH), then reads again. Each request is
		// owed its answer once the connection drains; what the write loop and the reader do then is the tape's choice.
		cfg.MaxQos = 2
		g.Connect(0)
		si := g.Subscribe(0)
		g.plan.Ops[si].Pkt.Filters = []refcodec.Filter{{Filter: "t/#", Opts: byte(t.Draw("c07.slow.subqos", 2))}}
		g.Connect(1)
		g.add(Op{Kind: "stall", Slot: 0})
		for i, np := 0, 2+t.Draw("c07.slow.burst", 3); i < np; i++ {
			pi := g.Publish(1)
			g.plan.Ops[pi].Pkt.Topic = "t"
		}
		for i, nr := 0, 1+t.Draw("c07.slow.requests", 2); i < nr; i++ {
			switch t.Draw("c07.slow.kind", 3) {
			case 0:
				g.add(Op{Kind: "ping", Slot: 0, Pkt: &refcodec.Packet{Type: refcodec.PINGREQ}})
			case 1:
				s2 := g.Subscribe(0)
				g.plan.Ops[s2].Pkt.Filters = []refcodec.Filter{{Filter: "t/a", Opts: 0}}
			default:
				pi := g.Publish(0)
				p := g.plan.Ops[pi].Pkt
				p.Topic, p.Qos = "u", 1
				if p.PacketID == 0 {
					p.PacketID = g.pid(0)
				}
			}
		}
		g.add(Op{Kind: "unstall", Slot: 0})
		g.add(Op{Kind: "advance", Ms: 10})
		for i := range g.plan.Ops {
			g.plan.Ops[i].Concurrent = false
		}
	}
	n := 6 + t.Draw("c07.len", 11)
	for len(g.plan.Ops) < n {
		switch t.Draw("c07.special", 8) {
		case 0: // repeat the packet id of the previous publish
			slot := t.Draw("op.slot", k.Slots)
			g.ensureConnected(slot)
			i := g.Publish(slot)
			if p := g.plan.Ops[i].Pkt; p.Qos > 0 {
				g.slots[slot].nextPID-- // next generated request reuses this id
			}
		case 1: // PUBREL for an id, possibly unknown, possibly with an error reason code
			slot := t.Draw("op.slot", k.Slots)
			g.ensureConnected(slot)
			pid := g.slots[slot].nextPID
			if pid == 0 {
				pid = 1 // packet identifier 0 is not a well-formed request
			}
			if t.Draw("c07.pubrel.unknown", 2) == 1 {
				pid += 500
			}
			p := &refcodec.Packet{Type: refcodec.PUBREL, PacketID: pid}
			if g.slots[slot].ver == 5 && t.Draw("c07.pubrel.rc", 2) == 1 {
				p.ReasonCode = 0x92
			}
			g.add(Op{Kind: "packet", Slot: slot, Pkt: p})
		default:
			g.Step()
		}
	}
	g.plan.Ops[len(g.plan.Ops)-1].Concurrent = false
	return g.plan
}

func relevantC07(r *Result) (bool, []string) {
	n := 0
	var probes []string
	for _, e := range r.H.Evs {
		if e.Kind == "in" && e.Last && e.Pkt != nil {
			switch e.Pkt.Type {
			case refcodec.PUBLISH:
				if e.Pkt.Qos > 0 {
					n++
					probes = append(probes, "req-publish-"+topicClass(e.Pkt))
				}
			case refcodec.SUBSCRIBE, refcodec.UNSUBSCRIBE, refcodec.PINGREQ, refcodec.PUBREL:
				n++
				probes = append(probes, "req-"+refcodec.TypeNames[e.Pkt.Type])
			}
		}
	}
	return n >= 2, probes
}

// ---------------------------------------------------------------------------------------------------
// C23: union workload with error paths up-weighted

func genC23(t *Tape) *Plan {
	k := DefaultKnobs()
	k.Slots = 4
	k.IDs = []string{"a", "b", "a", "c"}
	k.Ops = 16
	k.Topics = []string{"t", "t/a", "$SYS/x", "deny/w", "u"}
	k.Filters = []string{"t", "t/#", "+/a", "a/b#", "deny/r", "$share/g/t", "#"}
	k.WConnect, k.WSub, k.WUnsub, k.WPub, k.WDisc, k.WDrop, k.WPing, k.WAdv = 4, 4, 2, 8, 1, 1, 1, 1
	k.V3Pct = 25
	k.V5Pct = 45
	k.WillPct = 20
	k.RetainPct = 25
	k.PropsPct = 40
	k.SubIDPct = 40
	k.KeepAlives = []uint16{0, 0, 2}
	k.MaxPktChoices = []uint32{0, 0, 40, 25}
	k.AliasMaxChoices = []uint16{0, 2}
	k.RecvMaxChoices = []uint16{0, 1, 2}
	k.ProblemInfoOffPct = 30
	k.ConcPct = 20
	k.PadMax = 30
	k.MsgExpiryChoices = []uint32{0, 0, 5}
	if t.Draw("c23.sessions", 2) == 0 {
		// persistent sessions holding unacknowledged QoS 1/2 messages, resumed by connections that may speak another
		// protocol version than the one that created the session: everything resent must fit the new connection
		k.CleanPct = 15
		k.ManualAckPct = 60
		k.ExpiryChoices = []uint32{300}
		k.SubQosW = [3]int{0, 2, 2}
		k.QosW = [3]int{1, 3, 3}
		k.WConnect, k.WDrop = 6, 2
	}
	g := NewGen(t, &k, "C23")
	cfg := &g.plan.Cfg
	GenSchedConfig(t, cfg)
	cfg.Auth = "perm"
	cfg.Deny = []DenyRule{{Topic: "deny/w", Write: true}, {Topic: "deny/r", Write: false}}
	cfg.MaxQos = []byte{2, 2, 1}[t.Draw("c23.maxqos", 3)]
	cfg.TopicAliasMax = []uint16{0, 3}[t.Draw("c23.alias", 2)]
	cfg.Obscure = t.Draw("c23.obscure", 4) == 0
	cfg.WriteBuf = []int{0, 16, 64}[t.Draw("c23.writebuf", 3)]
	cfg.MaxSessExpiry = []uint32{0, 30}[t.Draw("c23.maxsess", 2)]
	if t.Draw("c23.boundary", 3) == 0 {
		// boundary sweep: an MQTT 5 subscriber announces a Maximum Packet Size, and a publisher sends payloads whose
		// lengths step through the values at which the delivered packet is a few bytes below, exactly at, and a few
		// bytes above it (off-by-one and off-by-header-length mistakes live there). The random tail follows.
		limit := uint32([]int{40, 60, 140}[t.Draw("c23.boundary.limit", 3)]) // 140: a two-byte remaining length
		ci := g.Connect(0)
		cp := g.plan.Ops[ci].Pkt
		cp.ProtoVer = 5
		g.slots[0].ver = 5
		var props refcodec.Props
		for _, pr := range cp.Props {
			if pr.ID != refcodec.PMaximumPacketSize {
				props = append(props, pr)
			}
		}
		cp.Props = append(props, refcodec.Prop{ID: refcodec.PMaximumPacketSize, Int: limit})
		si := g.Subscribe(0)
		g.plan.Ops[si].Pkt.Filters = []refcodec.Filter{{Filter: "t", Opts: 0}}
		g.plan.Ops[si].Pkt.Props = nil
		g.Connect(1)
		// delivered QoS 0 PUBLISH on "t" to a v5 client: fixed header + topic + property block; measured rather than
		// assumed by letting the sweep span 12 bytes around the estimate
		est := int(limit) - 12
		if est < 4 {
			est = 4
		}
		for d := -4; d <= 7; d++ {
			pi := g.Publish(1)
			p := g.plan.Ops[pi].Pkt
			p.Topic, p.Qos, p.PacketID, p.Retain, p.Props = "t", 0, 0, false, nil
			head := fmt.Sprintf("m%d.", pi)
			p.Payload = head + strings.Repeat("x", est+d-len(head))
		}
		for i := range g.plan.Ops {
			g.plan.Ops[i].Concurrent = false
		}
	}
	n := 6 + t.Draw("c23.len", 11)
	for len(g.plan.Ops) < n {
		switch t.Draw("c23.special", 10) {
		case 0:
			g.invalidConnect(t.Draw("op.slot", k.Slots))
		case 1: // second CONNECT on an established connection (protocol error path)
			slot := t.Draw("op.slot", k.Slots)
			g.ensureConnected(slot)
			g.add(Op{Kind: "packet", Slot: slot, Pkt: &refcodec.Packet{Type: refcodec.CONNECT, ProtoVer: g.slots[slot].ver, ClientID: g.slots[slot].id, CleanStart: true}, Note: "malformed"})
			g.slots[slot].connected = false
		case 2:
			g.add(Op{Kind: "server_close"})
		default:
			g.Step()
		}
	}
	g.plan.Ops[len(g.plan.Ops)-1].Concurrent = false
	return g.plan
}

func relevantC23(r *Result) (bool, []string) {
	n := 0
	probes := map[string]bool{}
	for _, c := range r.Ex.Conns {
		for _, pr := range c.Pkts {
			n++
			if c.Ver < 5 {
				probes["v3-"+refcodec.TypeNames[pr.P.Type]] = true
			} else {
				probes["v5-"+refcodec.TypeNames[pr.P.Type]] = true
			}
		}
	}
	var ps []string
	for p := range probes {
		ps = append(ps, p)
	}
	return n >= 3, ps
}

// ---------------------------------------------------------------------------------------------------
// C32

func genC32(t *Tape) *Plan {
	k := DefaultKnobs()
	k.Slots = 4
	k.IDs = []string{"a", "b", "c", "a"}
	k.Ops = 18
	k.WConnect, k.WSub, k.WUnsub, k.WPub, k.WDisc, k.WDrop = 3, 4, 2, 9, 1, 1
	k.QosW = [3]int{1, 4, 3}
	k.SubQosW = [3]int{0, 3, 3}
	k.RecvMaxChoices = []uint16{0, 1, 1, 2}
	k.V5Pct = 60
	k.ConcPct = 60
	k.RetainPct = 15
	k.Topics = []string{"t", "t/a"}
	k.Filters = []string{"t", "t/#", "#", "t/a"}
	g := NewGen(t, &k, "C32")
	cfg := &g.plan.Cfg
	GenSchedConfig(t, cfg)
	cfg.ArmMode = []int{1, 3, 2}[t.Draw("c32.arm", 3)]
	cfg.ArmFocus = []string{"sync:"}
	cfg.ArmPct = 30
	if cfg.Strategy == 0 {
		cfg.Strategy = 1
	}
	cfg.HoldPct = []int{0, 10}[t.Draw("c32.hold", 2)]
	cfg.Listener = []string{"", "tcp"}[t.Draw("c32.listener", 2)]
	if t.Draw("c32.shape", 4) == 0 {
		// stuck-writer skeleton: a subscriber stops reading while the broker writes to it, then ends the session
		// from its side (DISCONNECT, or a protocol error) without closing the socket
		g.Connect(0)
		si := g.Subscribe(0)
		g.plan.Ops[si].Pkt.Filters = []refcodec.Filter{{Filter: "#", Opts: byte(t.Draw("c32.subqos", 2))}}
		g.Connect(1)
		g.add(Op{Kind: "stall", Slot: 0})
		for i, n := 0, 1+t.Draw("c32.burst", 3); i < n; i++ {
			g.Publish(1)
		}
		if t.Draw("c32.endkind", 3) == 0 {
			g.add(Op{Kind: "packet", Slot: 0, Pkt: &refcodec.Packet{Type: refcodec.CONNECT, ProtoVer: g.slots[0].ver, ClientID: g.slots[0].id, CleanStart: true}, Note: "malformed"})
		} else {
			g.add(Op{Kind: "disconnect", Slot: 0, Pkt: &refcodec.Packet{Type: refcodec.DISCONNECT}})
		}
		g.slots[0].connected = false
		for i := range g.plan.Ops {
			g.plan.Ops[i].Concurrent = false
		}
	}
	n := 8 + t.Draw("c32.len", 11)
	for len(g.plan.Ops) < n {
		g.Step()
	}
	if t.Draw("c32.close", 3) == 0 {
		g.add(Op{Kind: "server_close", Concurrent: true})
	} else {
		// the broker keeps serving: a fresh client must still be answered
		g.plan.Ops[len(g.plan.Ops)-1].Concurrent = false
		g.plan.Ops = append(g.plan.Ops, Op{Kind: "connect", Slot: 9, Pkt: &refcodec.Packet{Type: refcodec.CONNECT, ProtoVer: 4, ClientID: "probe", CleanStart: true}, Note: "probe"})
		g.plan.Ops = append(g.plan.Ops, Op{Kind: "ping", Slot: 9, Pkt: &refcodec.Packet{Type: refcodec.PINGREQ}, Note: "probe"})
	}
	g.plan.Ops[len(g.plan.Ops)-1].Concurrent = false
	return g.plan
}

func checkC32Profile(r *Result) []Violation {
	var out []Violation
	if r.Stats.Truncated {
		return nil
	}
	for _, c := range r.Ex.Conns {
		if r.Plan.Ops[c.ConnectOp].Note != "probe" || r.Ex.Deadlock != nil {
			continue
		}
		gotAck, gotPong := false, false
		for _, pr := range c.Pkts {
			if pr.P.Type == refcodec.CONNACK && pr.P.ReasonCode == 0 {
				gotAck = true
			}
			if pr.P.Type == refcodec.PINGRESP {
				gotPong = true
			}
		}
		if !gotAck || !gotPong {
			out = append(out, viol("C32", "not-serving", "probe client was not served after the workload (CONNACK/PINGRESP missing)", -1))
		}
	}
	// a connection whose client has sent DISCONNECT is closed by the broker by the next quiescent point, also when
	// a write to that client is stuck because it has stopped reading: the handler must not wait for a lock that the
	// stuck writer holds
	sent := sentPackets(r)
	for _, c := range r.Ex.Conns {
		if connack(c) == nil || connack(c).P.ReasonCode != 0 {
			continue
		}
		for _, s := range sent[c.Idx] {
			if s.P == nil || s.P.Type != refcodec.DISCONNECT {
				continue
			}
			q := firstQuiesceAfter(r.H, s.Seq)
			if q < 0 {
				continue
			}
			bc, pc := brokerCloseSeq(r.H, c.Idx), peerCloseSeq(r.H, c.Idx)
			if (bc < 0 || bc > q) && (pc < 0 || pc > q) {
				stalled := false
				for _, e := range r.H.Evs {
					if e.Seq > q {
						break
					}
					if e.Conn == c.Idx && e.Kind == "stall-on" {
						stalled = true
					}
					if e.Conn == c.Idx && e.Kind == "stall-off" {
						stalled = false
					}
				}
				out = append(out, viol("C32", "handler-stuck-after-disconnect", fmt.Sprintf("conn %d: the client's DISCONNECT was delivered but the broker has not closed the connection by the next quiescent point (seq %d); the handler is blocked", c.Idx, q), q, "writer_stalled", fmt.Sprint(stalled)))
			}
			break
		}
	}
	return out
}

func relevantC32(r *Result) (bool, []string) {
	var probes []string
	if r.Stats.Preempts > 0 {
		probes = append(probes, "preempted")
	}
	if len(r.Ex.Conns) >= 3 {
		probes = append(probes, "3+conns")
	}
	return r.Stats.Steps > 50, probes
}

func init() {
	register(&Profile{Name: "C13", Gen: genC13, Check: checkC13, Relevant: relevantC13})
	register(&Profile{Name: "C07", Gen: genC07, Check: checkC07, Relevant: relevantC07})
	register(&Profile{Name: "C23", Gen: genC23, Check: nil, Relevant: relevantC23})
	register(&Profile{Name: "C32", Gen: genC32, Check: checkC32Profile, Relevant: relevantC32})
}
