package harness

import "sort"

// sortedReplies returns the replies in a canonical order (see runC39).
func sortedReplies(w []string) []string {
	out := append([]string(nil), w...)
	sort.Strings(out)
	return out
}
