package harness

import (
	"errors"
	"fmt"
	"io"
	"log/slog"
	"net"
	"os"
	"sync"
	"time"

	"github.com/mochi-mqtt/server/v2/listeners"
	"github.com/mochi-mqtt/server/v2/verifsim"
	"verifharness/refcodec"
)

type simAddr struct{ s string }

func (a simAddr) Network() string { return "sim" }
func (a simAddr) String() string  { return a.s }

type pendingPkt struct {
	pkt  *refcodec.Packet
	data []byte
	op   int // originating op (-1 = automatic reaction)
	off  int // bytes already delivered
	rawWS bool // already a websocket frame (not to be wrapped)
}

type outMark struct {
	end int // offset in out after this write
	seq int
}

// Conn is the simulated network connection: net.Conn towards the broker, passive client state towards the
// scheduler. Inbound bytes (client -> broker) are delivered only by scheduler actions.
type Conn struct {
	ex   *Ex
	Idx  int
	Slot int
	Ver  byte // protocol version the client speaks on this connection
	CID  string
	ConnectOp int

	mu       sync.Mutex
	in       []byte
	notify   chan struct{}
	peerClosed   bool // client side closed / reset
	brokerClosed bool
	deadline time.Time

	out      []byte // every byte the broker wrote successfully
	marks    []outMark
	parsed   int
	hookSent []byte // concatenation of OnPacketSent bytes
	malformed bool

	// write faults
	stalled    bool
	stallCh    chan struct{}
	writerWait bool
	failWriteAt int // fail the n-th write from now (1 = next); 0 = off
	shortWriteAt int
	nWrites    int

	// client side
	pending  []*pendingPkt
	AckMode  int
	Redial   bool // an auto-reconnecting client: dials again as soon as it reads the broker's shutdown DISCONNECT
	unacked  []uint16 // PUBLISH q1/q2 pids received and not yet acknowledged (manual mode)
	unackedQ []byte
	pubrecSent map[uint16]bool
	Pkts     []*PktRec // decoded broker->client packets
	closeSeq int
	openSeq  int
	readStarted  bool
	firstReadSeq int
	handler  *verifsim.Task
	bytesIn  int

	// websocket transport (C39): the peer wraps its MQTT byte stream into binary messages
	ws        bool
	wsRaw     int    // bytes of c.out already consumed by the deframer (incl. the HTTP 101 response)
	wsHdr     bool   // HTTP response header skipped
	wsStream  []byte // deframed MQTT bytes written by the broker
	wsErr     string
	wsClosed  bool
	wsCtrl    int
}

// PktRec is one decoded packet the broker wrote on a connection.
type PktRec struct {
	P     *refcodec.Packet
	Seq   int   // sequence number of the write that completed the packet
	VT    int64 // virtual ms
	Index int
	Size  int
	Conn  int
}

func (c *Conn) Read(p []byte) (int, error) {
	c.mu.Lock()
	if !c.readStarted {
		// the broker's handler for this connection has started (its first read): C36 needs to know whether a
		// handler was already running when shutdown began
		c.readStarted = true
		c.firstReadSeq = c.ex.H.add(&Ev{Kind: "handler-started", Conn: c.Idx})
	}
	c.mu.Unlock()
	for {
		c.mu.Lock()
		if len(c.in) > 0 {
			n := copy(p, c.in)
			c.in = c.in[n:]
			c.mu.Unlock()
			verifsim.Yield(-1)
			return n, nil
		}
		if c.peerClosed {
			c.mu.Unlock()
			verifsim.Yield(-2)
			return 0, io.EOF
		}
		if c.brokerClosed {
			c.mu.Unlock()
			verifsim.Yield(-2)
			return 0, net.ErrClosed
		}
		dl := c.deadline
		c.mu.Unlock()
		if dl.IsZero() {
			<-c.notify
			continue
		}
		d := time.Until(dl)
		if d <= 0 {
			verifsim.Yield(-3)
			return 0, os.ErrDeadlineExceeded
		}
		tm := time.NewTimer(d)
		select {
		case <-c.notify:
			tm.Stop()
		case <-tm.C:
			verifsim.Yield(-3)
			return 0, os.ErrDeadlineExceeded
		}
	}
}

func (c *Conn) wake() {
	select {
	case c.notify <- struct{}{}:
	default:
	}
}

// deliver appends client bytes to the broker's inbound stream (scheduler action).
func (c *Conn) deliver(b []byte) {
	c.mu.Lock()
	c.in = append(c.in, b...)
	c.bytesIn += len(b)
	c.mu.Unlock()
	c.wake()
}

func (c *Conn) Write(p []byte) (int, error) {
	c.mu.Lock()
	if c.brokerClosed || c.peerClosed {
		c.mu.Unlock()
		return 0, errors.New("simnet: write on closed connection")
	}
	c.nWrites++
	if c.failWriteAt > 0 {
		c.failWriteAt--
		if c.failWriteAt == 0 {
			c.mu.Unlock()
			c.ex.fault("net.write_error", c.Idx)
			return 0, errors.New("simnet: injected write error")
		}
	}
	if c.shortWriteAt > 0 {
		c.shortWriteAt--
		if c.shortWriteAt == 0 && len(p) > 1 {
			n := len(p) / 2
			c.out = append(c.out, p[:n]...)
			seq := c.ex.H.add(&Ev{Kind: "out", Conn: c.Idx, N: int64(n)})
			c.marks = append(c.marks, outMark{len(c.out), seq})
			c.mu.Unlock()
			c.ex.fault("net.short_write", c.Idx)
			return n, errors.New("simnet: injected short write")
		}
	}
	for c.stalled {
		c.writerWait = true
		ch := c.stallCh
		c.mu.Unlock()
		c.ex.faultOnce("net.stall", c.Idx)
		<-ch
		verifsim.Yield(-4)
		c.mu.Lock()
		c.writerWait = false
		if c.brokerClosed || c.peerClosed {
			c.mu.Unlock()
			return 0, errors.New("simnet: write on closed connection")
		}
	}
	c.out = append(c.out, p...)
	seq := c.ex.H.add(&Ev{Kind: "out", Conn: c.Idx, N: int64(len(p))})
	c.marks = append(c.marks, outMark{len(c.out), seq})
	c.mu.Unlock()
	return len(p), nil
}

func (c *Conn) Close() error {
	c.mu.Lock()
	if c.brokerClosed {
		c.mu.Unlock()
		return nil
	}
	c.brokerClosed = true
	seq := c.ex.H.add(&Ev{Kind: "close", Conn: c.Idx, Str: "broker"})
	c.closeSeq = seq
	st := c.stalled
	c.stalled = false
	ch := c.stallCh
	c.mu.Unlock()
	if st && ch != nil {
		close(ch)
	}
	c.wake()
	return nil
}

// peerClose: the client side goes away (crash / reset / normal close after DISCONNECT).
func (c *Conn) peerClose(why string) {
	c.mu.Lock()
	if c.peerClosed {
		c.mu.Unlock()
		return
	}
	c.peerClosed = true
	c.pending = nil
	c.ex.H.add(&Ev{Kind: "close", Conn: c.Idx, Str: why})
	st := c.stalled
	c.stalled = false
	ch := c.stallCh
	c.mu.Unlock()
	if st && ch != nil {
		close(ch)
	}
	c.wake()
}

func (c *Conn) unstall() {
	c.mu.Lock()
	st := c.stalled
	c.stalled = false
	ch := c.stallCh
	c.mu.Unlock()
	if st && ch != nil {
		close(ch)
	}
}

func (c *Conn) stall() {
	c.mu.Lock()
	if !c.stalled {
		c.stalled = true
		c.stallCh = make(chan struct{})
	}
	c.mu.Unlock()
}

func (c *Conn) isClosed() bool {
	c.mu.Lock()
	defer c.mu.Unlock()
	return c.brokerClosed || c.peerClosed
}

func (c *Conn) BrokerClosed() bool {
	c.mu.Lock()
	defer c.mu.Unlock()
	return c.brokerClosed
}

func (c *Conn) LocalAddr() net.Addr  { return simAddr{"sim:1883"} }
func (c *Conn) RemoteAddr() net.Addr { return simAddr{fmt.Sprintf("simclient:%d", c.Idx)} }
func (c *Conn) SetDeadline(t time.Time) error {
	c.mu.Lock()
	c.deadline = t
	c.mu.Unlock()
	return nil
}
func (c *Conn) SetReadDeadline(t time.Time) error  { return c.SetDeadline(t) }
func (c *Conn) SetWriteDeadline(t time.Time) error { return nil }

// ---- listener used by most profiles: direct EstablishFn ----

type simListener struct {
	id        string
	establish listeners.EstablishFn
	done      chan struct{}
	closed    bool
}

func (l *simListener) Init(*slog.Logger) error { return nil }
func (l *simListener) Serve(e listeners.EstablishFn) {
	l.establish = e
	<-l.done
	verifsim.Yield(-1)
}
func (l *simListener) ID() string       { return l.id }
func (l *simListener) Address() string  { return "sim" }
func (l *simListener) Protocol() string { return "sim" }
func (l *simListener) Close(cf listeners.CloseFn) {
	cf(l.id)
	if !l.closed {
		l.closed = true
		close(l.done)
	}
}

// ---- simulated net.Listener (for the real listeners.TCP accept loop) ----

type simNetListener struct {
	mu     sync.Mutex
	q      []net.Conn
	notify chan struct{}
	closed bool
	accepts int
}

func newSimNetListener() *simNetListener { return &simNetListener{notify: make(chan struct{}, 1)} }

func (l *simNetListener) Accept() (net.Conn, error) {
	for {
		l.mu.Lock()
		if l.closed {
			l.mu.Unlock()
			verifsim.Yield(-2)
			return nil, net.ErrClosed
		}
		if len(l.q) > 0 {
			c := l.q[0]
			l.q = l.q[1:]
			l.accepts++
			l.mu.Unlock()
			verifsim.Yield(-1)
			return c, nil
		}
		l.mu.Unlock()
		<-l.notify
	}
}

func (l *simNetListener) push(c net.Conn) bool {
	l.mu.Lock()
	if l.closed {
		l.mu.Unlock()
		return false
	}
	l.q = append(l.q, c)
	l.mu.Unlock()
	select {
	case l.notify <- struct{}{}:
	default:
	}
	return true
}

func (l *simNetListener) Close() error {
	l.mu.Lock()
	l.closed = true
	l.mu.Unlock()
	select {
	case l.notify <- struct{}{}:
	default:
	}
	return nil
}

func (l *simNetListener) isClosed() bool {
	l.mu.Lock()
	defer l.mu.Unlock()
	return l.closed
}

func (l *simNetListener) Addr() net.Addr { return simAddr{"sim:1883"} }
