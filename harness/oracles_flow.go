package harness

import (
	"fmt"
	"sort"
	"strings"

	"verifharness/refcodec"
)

// ---------------------------------------------------------------------------------------------------
// Outbound QoS flow tracking (C09, C10): which QoS 1/2 messages the broker holds for a session, from the
// broker's own hook events (OnQosPublish at enqueue, OnPublishDropped / OnQosDropped at removal), what it
// wrote, and which client acknowledgements it actually read.

type outMsg struct {
	pid     uint16
	payload string
	qos     byte
	stage   int // 1 awaiting PUBACK/PUBREC, 2 PUBREC read (PUBREL stage)
	seq     int
	collided bool // the client used the same id for a publish of its own while this was outstanding
	// ownFirst: the broker gave this message an identifier on which an exchange of the client's own (a QoS 1/2
	// PUBLISH the broker had read and not yet fully answered) was open. The protocol allows it (two independent
	// spaces); with the broker's shared map it is harmless only as long as the allocator steps around such ids.
	ownFirst bool
}

func collisionOrder(m outMsg) string {
	switch {
	case m.ownFirst:
		return "own-exchange-first"
	case m.collided:
		return "outbound-first"
	}
	return "none"
}

func sessIDOfConn(c *Conn) string {
	if c.CID != "" {
		return c.CID
	}
	if ca := connack(c); ca != nil {
		if p, ok := ca.P.Props.Get(refcodec.PAssignedClientID); ok {
			return p.Str
		}
	}
	return fmt.Sprintf("?conn%d", c.Idx)
}

type resendCheck struct {
	conn     *Conn
	sess     string
	seq      int // CONNACK seq
	expect   map[uint16]outMsg
	resumed  bool
}

func splitHookStr(s string) (id, payload string) {
	if i := strings.LastIndexByte(s, '|'); i >= 0 {
		return s[:i], s[i+1:]
	}
	return s, ""
}

func checkOutboundFlows(r *Result, prop string) []Violation {
	var out []Violation
	U := map[string]map[uint16]*outMsg{}
	get := func(id string) map[uint16]*outMsg {
		if U[id] == nil {
			U[id] = map[uint16]*outMsg{}
		}
		return U[id]
	}
	connSess := map[int]string{}
	ownOpen := map[string]map[uint16]bool{} // session -> ids of the client's own QoS 1/2 publishes read and not yet fully answered
	pastRec := map[string]bool{} // "session|payload": the client's PUBREC for this message has been read, PUBCOMP not yet
	inheriting := map[string]int{} // client id -> connection whose CONNECT is being processed (no CONNACK written yet)
	limbo := map[string]map[uint16]*outMsg{} // messages "dropped" from the old client object during that time
	var checks []*resendCheck
	// "pkt" events are recorded when the simulated client parses the bytes; their place in time is the
	// write that completed the packet (N2). Order everything by that.
	type tev struct {
		key int
		e   *Ev
	}
	var evs []tev
	for _, e := range r.H.Evs {
		k := e.Seq
		if e.Kind == "pkt" && e.N2 >= 0 {
			k = int(e.N2)
		}
		evs = append(evs, tev{k, e})
	}
	sort.SliceStable(evs, func(i, j int) bool { return evs[i].key < evs[j].key })
	for _, te := range evs {
		e := te.e
		eseq := te.key
		_ = eseq
		switch e.Kind {
		case "hook":
			switch e.Str {
			case "qos_publish":
				if e.N2 != refcodec.PUBLISH {
					continue
				}
				id, payload := splitHookStr(e.Str2)
				if payload == "" {
					continue
				}
				u := get(id)
				pid := uint16(e.N)
				if old := u[pid]; old != nil && old.payload != payload && prop == "C10" {
					out = append(out, viol("C10", "packet-id-reused-while-unacked", fmt.Sprintf("session %q: packet id %d assigned to %q while %q is still unacknowledged under the same id", id, pid, payload, old.payload), e.Seq, "client_used_same_id", fmt.Sprint(old.collided), "order", collisionOrder(*old), "rm_limited", sessRMLimited(r, id, e.Seq), "session_taken_over", fmt.Sprint(sessConnections(r, id, e.Seq) > 1)))
				}
				if old := u[pid]; old == nil || old.payload != payload {
					u[pid] = &outMsg{pid: pid, payload: payload, stage: 1, seq: e.Seq, ownFirst: ownOpen[id][pid]}
					if pastRec[id+"|"+payload] {
						// the broker re-registers a session's messages when the session is resumed (dropped for the old
						// client object, published for the new one): the exchange is still past PUBREC
						u[pid].stage = 2
					}
				}
			case "publish_dropped":
				id, payload := splitHookStr(e.Str2)
				for pid, m := range get(id) {
					if m.payload == payload && m.stage == 1 {
						delete(get(id), pid)
					}
				}
			case "qos_dropped":
				id, _ := splitHookStr(e.Str2)
				if _, busy := inheriting[id]; busy {
					// the broker "drops" every message of the old client object while a new connection takes the
					// session over (and registers them again if the session is resumed): whether this removes them
					// from the session is known only when the CONNACK says whether the session is present
					if m := get(id)[uint16(e.N)]; m != nil {
						if limbo[id] == nil {
							limbo[id] = map[uint16]*outMsg{}
						}
						limbo[id][uint16(e.N)] = m
					}
				}
				delete(get(id), uint16(e.N))
			case "read":
				if e.Read == nil || e.Conn < 0 {
					continue
				}
				if e.Read.Type == refcodec.CONNECT && e.Conn < len(r.Ex.Conns) {
					if cid := r.Ex.Conns[e.Conn].CID; cid != "" {
						inheriting[cid] = e.Conn
					}
					continue
				}
				id := connSess[e.Conn]
				if id == "" {
					continue
				}
				u := get(id)
				switch e.Read.Type {
				case refcodec.PUBACK:
					delete(u, e.Read.PID)
				case refcodec.PUBREC:
					if m := u[e.Read.PID]; m != nil {
						if e.Read.RC >= 0x80 {
							delete(u, e.Read.PID)
						} else {
							m.stage = 2
							pastRec[id+"|"+m.payload] = true
						}
					}
				case refcodec.PUBCOMP:
					if m := u[e.Read.PID]; m != nil {
						delete(pastRec, id+"|"+m.payload)
					}
					delete(u, e.Read.PID)
				case refcodec.PUBLISH:
					// the client's own publish: a colliding identifier must not disturb the outbound message
					if e.Read.Qos > 0 {
						if m := u[e.Read.PID]; m != nil {
							m.collided = true
						}
						if ownOpen[id] == nil {
							ownOpen[id] = map[uint16]bool{}
						}
						ownOpen[id][e.Read.PID] = true
					}
				case refcodec.PUBREL:
					// ... nor must the PUBREL that completes the client's own QoS 2 publish with that identifier
					if m := u[e.Read.PID]; m != nil {
						m.collided = true
					}
				}
			}
		case "pkt":
			if e.Pkt == nil {
				continue
			}
			c := r.Ex.Conns[e.Conn]
			if t := e.Pkt.Type; t == refcodec.PUBACK || t == refcodec.PUBCOMP || (t == refcodec.PUBREC && e.Pkt.ReasonCode >= 0x80) {
				// the broker's final answer to a publish of the client's own: that exchange is over
				delete(ownOpen[sessIDOfConn(c)], e.Pkt.PacketID)
			}
			if e.Pkt.Type == refcodec.CONNACK {
				if inheriting[c.CID] == c.Idx {
					delete(inheriting, c.CID)
				}
			}
			if e.Pkt.Type == refcodec.CONNACK && e.Pkt.ReasonCode == 0 {
				id := sessIDOfConn(c)
				connSess[c.Idx] = id
				rc := &resendCheck{conn: c, sess: id, seq: eseq, resumed: e.Pkt.SessionPresent, expect: map[uint16]outMsg{}}
				held := limbo[id]
				delete(limbo, id)
				if e.Pkt.SessionPresent {
					// the session goes on: what the takeover "dropped" is still owed to the client
					for pid, m := range held {
						if cur := get(id)[pid]; cur == nil {
							get(id)[pid] = m
						} else if cur.payload == m.payload && m.stage == 2 {
							cur.stage = 2
						}
					}
					for pid, m := range get(id) {
						rc.expect[pid] = *m
					}
				} else {
					for pid, m := range held {
						rc.expect[pid] = *m
					}
					// a new session: whatever the old one held (dropped during the takeover) must never come back;
					// what is registered now was queued for the new session after the old one was discarded
				}
				checks = append(checks, rc)
			}
		}
	}
	for _, rc := range checks {
		q := firstQuiesceAfter(r.H, rc.seq)
		if q < 0 {
			continue
		}
		if ok, _ := closedIn(r, rc.conn, rc.seq, q); ok {
			continue
		}
		if stallActive(r, rc.seq, q) {
			continue
		}
		// what the broker wrote between CONNACK and quiescence
		pubs := map[uint16][]*PktRec{}
		rels := map[uint16]bool{}
		for _, pr := range rc.conn.Pkts {
			if pr.Seq <= rc.seq || pr.Seq > q {
				continue
			}
			switch pr.P.Type {
			case refcodec.PUBLISH:
				if pr.P.Qos > 0 {
					pubs[pr.P.PacketID] = append(pubs[pr.P.PacketID], pr)
				}
			case refcodec.PUBREL:
				rels[pr.P.PacketID] = true
			}
		}
		var pids []int
		for pid := range rc.expect {
			pids = append(pids, int(pid))
		}
		sort.Ints(pids)
		if !rc.resumed {
			for _, pidi := range pids {
				m := rc.expect[uint16(pidi)]
				for _, prs := range pubs {
					for _, pr := range prs {
						if payloadIDOf(pr.P.Payload) == m.payload && pr.P.Dup && prop == "C09" {
							out = append(out, viol("C09", "resent-into-new-session", fmt.Sprintf("conn %d (session present 0): message %q of the previous session was sent", rc.conn.Idx, m.payload), pr.Seq))
						}
					}
				}
			}
			continue
		}
		for _, pidi := range pids {
			pid := uint16(pidi)
			m := rc.expect[pid]
			p := "C09"
			cls := ""
			if m.collided || m.ownFirst {
				p = "C10"
			}
			if p != prop {
				continue
			}
			order := collisionOrder(m)
			n0 := len(out)
			if m.stage == 1 {
				found := false
				for _, pr := range pubs[pid] {
					if payloadIDOf(pr.P.Payload) == m.payload {
						found = true
						if !pr.P.Dup && hasBeenWritten(r, rc.sess, m.payload, rc.seq) {
							out = append(out, viol(p, "redelivery-without-dup", fmt.Sprintf("conn %d: message %q (id %d) resent after reconnect without DUP", rc.conn.Idx, m.payload, pid), pr.Seq, "rm_limited", sessRMLimited(r, rc.sess, rc.seq)))
						}
					}
				}
				if !found {
					cls = "unacked-publish-not-redelivered"
					if m.collided || m.ownFirst {
						cls = "outbound-lost-after-id-collision"
					}
					how := "sent"
					if !hasBeenWritten(r, rc.sess, m.payload, rc.seq) {
						how = "queued"
					}
					other := false
					for opid, prs := range pubs {
						for _, pr := range prs {
							if opid != pid && payloadIDOf(pr.P.Payload) == m.payload {
								other = true
							}
						}
					}
					if other {
						cls = "redelivered-with-different-id"
					}
					out = append(out, viol(p, cls, fmt.Sprintf("conn %d (session present 1, session %q): unacknowledged message %q (packet id %d, %s before the disconnect) was not redelivered", rc.conn.Idx, rc.sess, m.payload, pid, how), q,
						"was", how, "ver", verClass(rc.conn.Ver), "rm_limited", sessRMLimited(r, rc.sess, rc.seq)))
				}
			} else {
				if !rels[pid] {
					// what did the broker answer to the PUBREC before the disconnect?
					first := "never-written"
					for _, c2 := range r.Ex.Conns {
						if sessIDOfConn(c2) != rc.sess {
							continue
						}
						for _, pr := range c2.Pkts {
							if pr.Seq < rc.seq && pr.Seq > m.seq && pr.P.Type == refcodec.PUBREL && pr.P.PacketID == pid {
								if pr.P.ReasonCode >= 0x80 {
									first = "refused-0x92"
								} else if first == "never-written" {
									first = "sent"
								}
							}
						}
					}
					out = append(out, viol(p, "pubrel-not-resent", fmt.Sprintf("conn %d: message %q (id %d) was past PUBREC (PUBREL before the disconnect: %s); PUBREL was not resent after reconnect", rc.conn.Idx, m.payload, pid, first), q, "ver", verClass(rc.conn.Ver), "pubrel", first, "rm_limited", sessRMLimited(r, rc.sess, rc.seq)))
				}
				for _, pr := range pubs[pid] {
					if payloadIDOf(pr.P.Payload) == m.payload { // (the identifier may by now carry another message)
						out = append(out, viol(p, "publish-resent-after-pubrec", fmt.Sprintf("conn %d: message %q (id %d) was past PUBREC but PUBLISH was sent again", rc.conn.Idx, m.payload, pid), pr.Seq))
						break
					}
				}
			}
			if p == "C10" {
				// which side was on the identifier first says which mechanism can account for the collision
				for i := n0; i < len(out); i++ {
					out[i].Features["order"] = order
				}
			}
		}
		if prop == "C09" {
			for pid, prs := range pubs {
				if _, ok := rc.expect[pid]; ok {
					continue
				}
				for _, pr := range prs {
					if pr.P.Dup && everAcked(r, rc.sess, payloadIDOf(pr.P.Payload), rc.seq) {
						out = append(out, viol("C09", "acknowledged-message-resent", fmt.Sprintf("conn %d: message %q (id %d) had been acknowledged but was resent", rc.conn.Idx, payloadIDOf(pr.P.Payload), pid), pr.Seq))
					}
				}
			}
		}
	}
	return out
}

// sessConnections: how many connections with this client id were opened before seq (more than one: the session
// went through a resume or takeover, where the broker moves its state between client objects).
func sessConnections(r *Result, sess string, before int) int {
	n := 0
	for _, c := range r.Ex.Conns {
		if sessIDOfConn(c) == sess && c.openSeq < before {
			n++
		}
	}
	return n
}

// sessRMLimited: did a connection of the session opened before seq declare a small Receive Maximum (so that the
// broker's flow-control deferral can have been involved)?
func sessRMLimited(r *Result, sess string, before int) string {
	for _, c := range r.Ex.Conns {
		if sessIDOfConn(c) != sess || c.openSeq >= before || c.Ver != 5 {
			continue
		}
		if cp := connectPkt(c, r); cp != nil {
			if p, ok := cp.Props.Get(refcodec.PReceiveMaximum); ok && p.Int <= 3 {
				return "true"
			}
		}
	}
	return "false"
}

// hasBeenWritten: did the broker write a PUBLISH with this payload to a connection of the session before seq?
func hasBeenWritten(r *Result, sess, payload string, before int) bool {
	for _, c := range r.Ex.Conns {
		if sessIDOfConn(c) != sess {
			continue
		}
		for _, pr := range c.Pkts {
			if pr.Seq < before && pr.P.Type == refcodec.PUBLISH && payloadIDOf(pr.P.Payload) == payload {
				return true
			}
		}
	}
	return false
}

// everAcked: did the broker read a PUBACK/PUBCOMP for a message with this payload on the session before seq?
func everAcked(r *Result, sess, payload string, before int) bool {
	// per connection timeline: which payload currently owns each packet id, and which acknowledgements the
	// broker read for it afterwards
	for _, c := range r.Ex.Conns {
		if sessIDOfConn(c) != sess {
			continue
		}
		type item struct {
			seq int
			pr  *PktRec
			ev  *Ev
		}
		var items []item
		for _, pr := range c.Pkts {
			if pr.Seq < before && pr.P.Type == refcodec.PUBLISH && pr.P.Qos > 0 {
				items = append(items, item{seq: pr.Seq, pr: pr})
			}
		}
		for _, e := range r.H.Evs {
			if e.Seq >= before {
				break
			}
			if e.Conn == c.Idx && e.Kind == "hook" && e.Str == "read" && e.Read != nil && (e.Read.Type == refcodec.PUBACK || e.Read.Type == refcodec.PUBCOMP) {
				items = append(items, item{seq: e.Seq, ev: e})
			}
		}
		sort.SliceStable(items, func(i, j int) bool { return items[i].seq < items[j].seq })
		cur := map[uint16]string{}
		for _, it := range items {
			if it.pr != nil {
				cur[it.pr.P.PacketID] = payloadIDOf(it.pr.P.Payload)
			} else if cur[it.ev.Read.PID] == payload {
				return true
			}
		}
	}
	return false
}

func checkC09(r *Result) []Violation { return checkOutboundFlows(r, "C09") }

func checkC10(r *Result) []Violation {
	out := checkOutboundFlows(r, "C10")
	// identifier range and uniqueness on the wire (per connection, from the receiver's point of view)
	for _, c := range r.Ex.Conns {
		outstanding := map[uint16]string{}
		type item struct {
			seq int
			pr  *PktRec
			ev  *Ev
		}
		var items []item
		for _, pr := range c.Pkts {
			items = append(items, item{seq: pr.Seq, pr: pr})
		}
		for _, e := range r.H.Evs {
			if e.Kind == "cack" && e.Conn == c.Idx {
				items = append(items, item{seq: e.Seq, ev: e})
			}
		}
		sort.SliceStable(items, func(i, j int) bool { return items[i].seq < items[j].seq })
		for _, it := range items {
			if it.pr != nil {
				p := it.pr.P
				if p.Type == refcodec.PUBLISH && p.Qos > 0 {
					if prev, ok := outstanding[p.PacketID]; ok && prev != payloadIDOf(p.Payload) {
						// did the client use the same identifier for a publish of its own in between (the broker keeps
						// both directions in one map, a known defect), or is the identifier simply handed out twice?
						same := "false"
						for _, e := range r.H.Evs {
							if e.Kind == "in" && e.Last && e.Conn == c.Idx && e.Pkt != nil && ((e.Pkt.Type == refcodec.PUBLISH && e.Pkt.Qos > 0) || e.Pkt.Type == refcodec.PUBREL) && e.Pkt.PacketID == p.PacketID && e.Seq < it.pr.Seq {
								same = "true"
							}
						}
						out = append(out, viol("C10", "duplicate-outbound-id-on-wire", fmt.Sprintf("conn %d: PUBLISH %q uses packet id %d which is still unacknowledged for %q", c.Idx, payloadIDOf(p.Payload), p.PacketID, prev), it.pr.Seq, "client_used_same_id", same, "rm_limited", sessRMLimited(r, sessIDOfConn(c), it.pr.Seq)))
					}
					outstanding[p.PacketID] = payloadIDOf(p.Payload)
				}
			} else {
				p := it.ev.Pkt
				switch p.Type {
				case refcodec.PUBACK, refcodec.PUBCOMP:
					delete(outstanding, p.PacketID)
				case refcodec.PUBREC:
					if p.ReasonCode >= 0x80 {
						delete(outstanding, p.PacketID)
					}
				}
			}
		}
	}
	// the client's own exchange completes normally despite the collision: judged by C07 on the same run
	for _, v := range checkC07(r) {
		if v.Class == "no-response" {
			v.Property = "C10"
			v.Class = "client-exchange-not-completed"
			out = append(out, v)
		}
	}
	return out
}

// ---------------------------------------------------------------------------------------------------
// C11: Receive Maximum in both directions

func checkC11(r *Result) []Violation {
	var out []Violation
	for _, c := range r.Ex.Conns {
		if !verOK(c, r) {
			continue
		}
		cp := connectPkt(c, r)
		rm := 65535
		if c.Ver == 5 {
			if p, ok := cp.Props.Get(refcodec.PReceiveMaximum); ok {
				rm = int(p.Int)
			}
		}
		serverRM := int(r.Plan.Cfg.ReceiveMax)
		if serverRM == 0 {
			serverRM = 1024
		}
		type item struct {
			seq  int
			kind int // 0 broker->client pkt, 1 client ack generated, 2 client publish delivered
			p    *refcodec.Packet
		}
		var items []item
		for _, pr := range c.Pkts {
			items = append(items, item{pr.Seq, 0, pr.P})
		}
		for _, e := range r.H.Evs {
			if e.Conn != c.Idx {
				continue
			}
			if e.Kind == "cack" {
				items = append(items, item{e.Seq, 1, e.Pkt})
			}
			if e.Kind == "in" && e.Last && e.Pkt != nil && e.Pkt.Type == refcodec.PUBLISH && e.Pkt.Qos > 0 {
				items = append(items, item{e.Seq, 2, e.Pkt})
			}
		}
		sort.SliceStable(items, func(i, j int) bool { return items[i].seq < items[j].seq })
		outstanding := map[uint16]bool{} // broker -> client, from the client's point of view
		own := map[uint16]byte{}         // client -> broker QoS>0 publishes not yet completed
		ownMax := 0
		resent := map[uint16]bool{} // packet ids the broker sent with DUP on this connection (resends after a reconnect)
		everPublished := map[uint16]bool{}
		inboundQos2Done := 0        // PUBCOMP written by the broker: inbound QoS 2 exchanges completed on this connection
		clientPubrecs := 0   // PUBREC sent by the client: outbound QoS 2 exchanges past their first half
		for _, it := range items {
			p := it.p
			switch it.kind {
			case 0:
				switch p.Type {
				case refcodec.PUBLISH:
					if p.Qos > 0 {
						outstanding[p.PacketID] = true
						everPublished[p.PacketID] = true
						if p.Dup {
							resent[p.PacketID] = true
						}
						if len(outstanding) > rm {
							// which known mechanism, if any, can account for the excess?
							explained := "none"
							// every message resent on this connection was sent without consuming send quota, and its
							// acknowledgement gives quota back: the quota stays too high by up to that many
							anyResent := len(resent) >= len(outstanding)-rm
							if p.Dup || anyResent {
								explained = "resend" // in-flight messages are resent on reconnect regardless of, and without consuming, the quota
							} else if inboundQos2Done >= len(outstanding)-rm {
								explained = "inbound-qos2" // each completed inbound QoS 2 exchange also raises the send quota
							} else if len(resent)+inboundQos2Done >= len(outstanding)-rm {
								explained = "resend+inbound-qos2" // both mechanisms together account for the excess
							}
							out = append(out, viol("C11", "outbound-exceeds-receive-maximum", fmt.Sprintf("conn %d: %d unacknowledged QoS>0 PUBLISH packets in transit, client Receive Maximum is %d", c.Idx, len(outstanding), rm), it.seq,
								"rm", fmt.Sprint(rm), "dup", fmt.Sprint(p.Dup), "explained", explained))
						}
					}
				case refcodec.PUBACK:
					delete(own, p.PacketID)
				case refcodec.PUBCOMP:
					inboundQos2Done++
					delete(own, p.PacketID)
				case refcodec.PUBREL:
					if !everPublished[p.PacketID] {
						resent[p.PacketID] = true // a PUBREL for a message this connection never carried: resent on resume
					}
				case refcodec.PUBREC:
					if p.ReasonCode >= 0x80 {
						delete(own, p.PacketID)
					}
				case refcodec.DISCONNECT:
					if p.ReasonCode == 0x93 && ownMax <= serverRM {
						explained := "none"
						if clientPubrecs > 0 {
							explained = "outbound-qos2" // each PUBREC the client sends for an outbound message lowers the receive quota
						}
						out = append(out, viol("C11", "spurious-receive-maximum-exceeded", fmt.Sprintf("conn %d: DISCONNECT 0x93 although the client never had more than %d unacknowledged QoS>0 publishes (server Receive Maximum %d)", c.Idx, ownMax, serverRM), it.seq,
							"server_rm", fmt.Sprint(serverRM), "own_max", fmt.Sprint(ownMax), "explained", explained))
					}
				}
			case 1:
				switch p.Type {
				case refcodec.PUBACK, refcodec.PUBCOMP:
					delete(outstanding, p.PacketID)
				case refcodec.PUBREC:
					if p.ReasonCode >= 0x80 {
						delete(outstanding, p.PacketID)
					} else {
						clientPubrecs++
					}
				}
			case 2:
				own[p.PacketID] = p.Qos
				if len(own) > ownMax {
					ownMax = len(own)
				}
			}
		}
	}
	// liveness: with promptly acknowledging clients, everything queued behind the limit is eventually sent
	allAuto := true
	for _, c := range r.Ex.Conns {
		if c.AckMode != 0 {
			allAuto = false
		}
	}
	if allAuto {
		for _, v := range checkDelivery(r, "C03") {
			if v.Class == "missing-delivery" {
				v.Property = "C11"
				v.Class = "queued-message-never-sent"
				out = append(out, v)
			}
		}
	}
	return out
}

// ---------------------------------------------------------------------------------------------------
// C12: per publisher / topic / subscriber / QoS ordering of first transmissions

func checkC12(r *Result) []Violation {
	var out []Violation
	// payload id -> (publisher conn, topic, op)
	type src struct {
		conn  int
		topic string
		op    int
	}
	srcs := map[string]src{}
	for i, op := range r.Plan.Ops {
		if op.Kind == "publish" && op.Pkt != nil && op.Pkt.Payload != "" && op.Note == "" {
			if c := (&Model{r: r}).connOfOp(i); c != nil {
				srcs[payloadIDOf(op.Pkt.Payload)] = src{c.Idx, op.Pkt.Topic, i}
			}
		}
	}
	// per subscriber session: first transmissions in order
	type first struct {
		seq     int
		payload string
		qos     byte
		conn    int
	}
	bySess := map[string][]first{}
	seen := map[string]map[string]bool{}
	sharedOnly := map[string]bool{}
	_ = sharedOnly
	var all []struct {
		sess string
		f    first
	}
	for _, c := range r.Ex.Conns {
		id := sessIDOfConn(c)
		for _, pr := range c.Pkts {
			if pr.P.Type != refcodec.PUBLISH || pr.P.Retain {
				continue
			}
			pl := payloadIDOf(pr.P.Payload)
			if _, ok := srcs[pl]; !ok {
				continue
			}
			all = append(all, struct {
				sess string
				f    first
			}{id, first{pr.Seq, pl, pr.P.Qos, c.Idx}})
		}
	}
	sort.SliceStable(all, func(i, j int) bool { return all[i].f.seq < all[j].f.seq })
	for _, a := range all {
		if seen[a.sess] == nil {
			seen[a.sess] = map[string]bool{}
		}
		if seen[a.sess][a.f.payload] {
			continue
		}
		seen[a.sess][a.f.payload] = true
		bySess[a.sess] = append(bySess[a.sess], a.f)
	}
	// sessions holding shared subscriptions are excluded (the property speaks of non-shared subscribers)
	hasShared := map[string]bool{}
	for i, op := range r.Plan.Ops {
		if op.Kind == "subscribe" {
			for _, f := range op.Pkt.Filters {
				if strings.HasPrefix(f.Filter, "$share/") {
					if c := (&Model{r: r}).connOfOp(i); c != nil {
						hasShared[sessIDOfConn(c)] = true
					}
				}
			}
		}
	}
	for sess, fs := range bySess {
		if hasShared[sess] {
			continue
		}
		last := map[string]first{} // key: pubconn|topic|qos
		lastOp := map[string]int{}
		for _, f := range fs {
			s := srcs[f.payload]
			key := fmt.Sprintf("%d|%s|%d", s.conn, s.topic, f.qos)
			if prev, ok := lastOp[key]; ok && s.op < prev {
				how := "live"
				if f.conn != last[key].conn {
					how = "across-reconnect"
				}
				out = append(out, viol("C12", "out-of-order", fmt.Sprintf("session %q: first transmission of %q (publish op %d) arrived after %q (op %d), same publisher, topic %q, qos %d", sess, f.payload, s.op, last[key].payload, prev, s.topic, f.qos), f.seq,
					"qos", fmt.Sprint(f.qos), "how", how))
			}
			if prev, ok := lastOp[key]; !ok || s.op > prev {
				lastOp[key] = s.op
				last[key] = f
			}
		}
	}
	return out
}

// ---------------------------------------------------------------------------------------------------
// C08: inbound QoS 2 exactly once across retransmissions

func checkC08(r *Result) []Violation {
	var out []Violation
	sent := sentPackets(r)
	// families: payload id -> publishes (first + retransmissions)
	type fam struct {
		payload string
		pubs    []SentRec
		conns   map[int]bool
	}
	fams := map[string]*fam{}
	for _, c := range r.Ex.Conns {
		for _, s := range sent[c.Idx] {
			if s.P != nil && s.P.Type == refcodec.PUBLISH && s.P.Qos == 2 && s.P.Payload != "" {
				id := payloadIDOf(s.P.Payload)
				if fams[id] == nil {
					fams[id] = &fam{payload: id, conns: map[int]bool{}}
				}
				fams[id].pubs = append(fams[id].pubs, s)
				fams[id].conns[c.Idx] = true
			}
		}
	}
	for id, f := range fams {
		// copies per subscriber session over the whole run (first transmissions only)
		per := map[string]int{}
		for _, c := range r.Ex.Conns {
			sid := sessIDOfConn(c)
			for _, pr := range c.Pkts {
				if pr.P.Type == refcodec.PUBLISH && !pr.P.Dup && !pr.P.Retain && payloadIDOf(pr.P.Payload) == id {
					per[sid]++
				}
			}
		}
		for sid, n := range per {
			if n > 1 {
				out = append(out, viol("C08", "forwarded-more-than-once", fmt.Sprintf("QoS 2 message %q (sent %d times by its publisher before PUBREL) was forwarded %d times to session %q", id, len(f.pubs), n, sid), -1,
					"retransmissions", fmt.Sprint(len(f.pubs)-1), "reconnected", fmt.Sprint(len(f.conns) > 1)))
			}
		}
		// every PUBLISH of the family is answered by a non-failure PUBREC (or the connection was closed)
		for ci := range f.conns {
			c := r.Ex.Conns[ci]
			used := map[int]bool{}
			for _, s := range f.pubs {
				if !containsSent(sent[ci], s) {
					continue
				}
				q := firstQuiesceAfter(r.H, s.Seq)
				if q < 0 {
					continue
				}
				if ok, _ := closedIn(r, c, s.Seq, q); ok {
					continue
				}
				found := false
				for _, pr := range c.Pkts {
					if used[pr.Index] || pr.Seq < s.Seq || pr.Seq > q || pr.P.Type != refcodec.PUBREC || pr.P.PacketID != s.P.PacketID {
						continue
					}
					used[pr.Index] = true
					found = true
					if pr.P.ReasonCode >= 0x80 {
						out = append(out, viol("C08", "retransmission-refused", fmt.Sprintf("conn %d: QoS 2 PUBLISH %q (dup=%v) answered with PUBREC reason 0x%02x", ci, id, s.P.Dup, pr.P.ReasonCode), pr.Seq,
							"rc", fmt.Sprintf("0x%02x", pr.P.ReasonCode), "dup", fmt.Sprint(s.P.Dup)))
					}
					break
				}
				if !found && r.Plan.Cfg.MaxQos == 2 {
					out = append(out, viol("C08", "no-pubrec", fmt.Sprintf("conn %d: QoS 2 PUBLISH %q (dup=%v) got no PUBREC", ci, id, s.P.Dup), s.Seq, "dup", fmt.Sprint(s.P.Dup)))
				}
			}
		}
	}
	return out
}

func containsSent(xs []SentRec, s SentRec) bool {
	for _, x := range xs {
		if x.Seq == s.Seq {
			return true
		}
	}
	return false
}
