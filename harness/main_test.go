package harness

import (
	"os"
	"testing"
)

// TestMain-less entry points: the driver (bin/vcheck) runs this test binary with -test.run and env vars.

func TestWorker(t *testing.T) {
	if os.Getenv("VERIF_PROFILE") == "" {
		t.Skip("driver only")
	}
	WorkerMain(t)
}

func TestReplay(t *testing.T) {
	if os.Getenv("VERIF_REPLAY") == "" {
		t.Skip("driver only")
	}
	ReplayMain(t)
}

func TestMinimise(t *testing.T) {
	if os.Getenv("VERIF_MINIMISE") == "" {
		t.Skip("driver only")
	}
	MinimiseMain(t)
}
