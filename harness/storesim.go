package harness

import (
	"bytes"
	"encoding/json"
	"fmt"
	"io"
	"log/slog"
	"os"
	"path/filepath"
	"sort"
	"strings"
	"sync"
	"testing"

	"github.com/alicebob/miniredis/v2"
	rv8 "github.com/go-redis/redis/v8"
	mqtt "github.com/mochi-mqtt/server/v2"
	"github.com/mochi-mqtt/server/v2/hooks/storage"
	"github.com/mochi-mqtt/server/v2/hooks/storage/badger"
	"github.com/mochi-mqtt/server/v2/hooks/storage/bolt"
	"github.com/mochi-mqtt/server/v2/hooks/storage/pebble"
	"github.com/mochi-mqtt/server/v2/hooks/storage/redis"
	"github.com/mochi-mqtt/server/v2/packets"
	"github.com/mochi-mqtt/server/v2/system"
	"verifharness/refcodec"
)

// Engine B: the broker under the same simulator, with the *real* bundled storage hooks behind a proxy.
//
// The storage engines (badger, pebble, bbolt, go-redis + miniredis) keep their own goroutines, timers and
// file handles; they run outside the synctest bubble. A broker task inside the bubble that calls a storage
// hook hands the call to a worker goroutine outside the bubble over channels created outside the bubble and
// waits for it: such a wait is not "durably blocking", so the scheduler's synctest.Wait() does not return
// until the storage call has finished. From the broker's point of view every storage call is synchronous
// (as it is in production) and the order of calls is the scheduler's.

var backends = []string{"bolt", "badger", "pebble", "redis"}

var (
	miniOnce sync.Once
	mini     *miniredis.Miniredis
)

type outside struct {
	reqs chan func()
	resp chan struct{}
}

func newOutside() *outside {
	o := &outside{reqs: make(chan func()), resp: make(chan struct{})}
	go func() {
		for f := range o.reqs {
			f()
			o.resp <- struct{}{}
		}
	}()
	return o
}

func (o *outside) do(f func()) {
	o.reqs <- f
	<-o.resp
}

func (o *outside) stop() { close(o.reqs) }

func discardLogger() *slog.Logger { return slog.New(slog.NewTextHandler(io.Discard, nil)) }

// openBackend creates and initialises one real storage hook (call it outside the bubble).
func openBackend(kind, dir string) (mqtt.Hook, error) {
	var h mqtt.Hook
	var cfg any
	switch kind {
	case "bolt":
		h = new(bolt.Hook)
		cfg = &bolt.Options{Path: filepath.Join(dir, "bolt.db")}
	case "badger":
		h = new(badger.Hook)
		cfg = &badger.Options{Path: filepath.Join(dir, "badger")}
	case "pebble":
		h = new(pebble.Hook)
		cfg = &pebble.Options{Path: filepath.Join(dir, "pebble"), Mode: "Sync"}
	case "redis":
		miniOnce.Do(func() {
			m, err := miniredis.Run()
			if err != nil {
				panic(err)
			}
			mini = m
		})
		h = new(redis.Hook)
		cfg = &redis.Options{HPrefix: "v" + filepath.Base(dir) + "-", Options: &rv8.Options{Addr: mini.Addr()}}
	}
	h.SetOpts(discardLogger(), &mqtt.HookOptions{Capabilities: mqtt.NewDefaultServerCapabilities()})
	if err := h.Init(cfg); err != nil {
		return nil, err
	}
	return h, nil
}

// storeProxy is the fault-injecting wrapper in front of a real storage hook.
type storeProxy struct {
	mqtt.HookBase
	be      mqtt.Hook
	out     *outside
	ex      *Ex
	writes  int
	crashAt int // stop forwarding writes after this many (-1 = never)
	dead    bool
	stopped bool
	deadSeq int
}

func (p *storeProxy) ID() string           { return "verif-store-proxy" }
func (p *storeProxy) Provides(b byte) bool { return p.be.Provides(b) }
func (p *storeProxy) Init(any) error       { return nil }
func (p *storeProxy) Stop() error {
	// closing the engine is not a write: after a simulated crash it only releases the file handle
	if p.stopped {
		return nil
	}
	var err error
	p.out.do(func() { err = p.be.Stop() })
	p.stopped = true
	p.dead = true
	return err
}

func (p *storeProxy) write(name string, f func()) {
	if p.dead {
		return
	}
	if p.crashAt >= 0 && p.writes >= p.crashAt {
		p.dead = true
		p.deadSeq = p.ex.H.add(&Ev{Kind: "fault", Str: "store.crash_at", Conn: -1, N: int64(p.writes)})
		p.ex.Stats.Faults["store.crash_at"]++
		return
	}
	p.writes++
	p.ex.H.add(&Ev{Kind: "store", Str: name, Conn: -1, N: int64(p.writes)})
	p.out.do(f)
}

func (p *storeProxy) OnSessionEstablished(cl *mqtt.Client, pk packets.Packet) {
	p.write("session_established", func() { p.be.OnSessionEstablished(cl, pk) })
}
func (p *storeProxy) OnWillSent(cl *mqtt.Client, pk packets.Packet) {
	p.write("will_sent", func() { p.be.OnWillSent(cl, pk) })
}
func (p *storeProxy) OnDisconnect(cl *mqtt.Client, err error, expire bool) {
	p.write("disconnect", func() { p.be.OnDisconnect(cl, err, expire) })
}
func (p *storeProxy) OnSubscribed(cl *mqtt.Client, pk packets.Packet, rc []byte) {
	p.write("subscribed", func() { p.be.OnSubscribed(cl, pk, rc) })
}
func (p *storeProxy) OnUnsubscribed(cl *mqtt.Client, pk packets.Packet) {
	p.write("unsubscribed", func() { p.be.OnUnsubscribed(cl, pk) })
}
func (p *storeProxy) OnRetainMessage(cl *mqtt.Client, pk packets.Packet, r int64) {
	p.write("retain", func() { p.be.OnRetainMessage(cl, pk, r) })
}
func (p *storeProxy) OnQosPublish(cl *mqtt.Client, pk packets.Packet, sent int64, resends int) {
	p.write("qos_publish", func() { p.be.OnQosPublish(cl, pk, sent, resends) })
}
func (p *storeProxy) OnQosComplete(cl *mqtt.Client, pk packets.Packet) {
	p.write("qos_complete", func() { p.be.OnQosComplete(cl, pk) })
}
func (p *storeProxy) OnQosDropped(cl *mqtt.Client, pk packets.Packet) {
	p.write("qos_dropped", func() { p.be.OnQosDropped(cl, pk) })
}
func (p *storeProxy) OnSysInfoTick(i *system.Info) {
	p.write("sys_tick", func() { p.be.OnSysInfoTick(i) })
}
func (p *storeProxy) OnClientExpired(cl *mqtt.Client) {
	p.write("client_expired", func() { p.be.OnClientExpired(cl) })
}
func (p *storeProxy) OnRetainedExpired(f string) {
	p.write("retained_expired", func() { p.be.OnRetainedExpired(f) })
}
func (p *storeProxy) StoredClients() (v []storage.Client, err error) {
	p.out.do(func() { v, err = p.be.StoredClients() })
	return
}
func (p *storeProxy) StoredSubscriptions() (v []storage.Subscription, err error) {
	p.out.do(func() { v, err = p.be.StoredSubscriptions() })
	return
}
func (p *storeProxy) StoredInflightMessages() (v []storage.Message, err error) {
	p.out.do(func() { v, err = p.be.StoredInflightMessages() })
	return
}
func (p *storeProxy) StoredRetainedMessages() (v []storage.Message, err error) {
	p.out.do(func() { v, err = p.be.StoredRetainedMessages() })
	return
}
func (p *storeProxy) StoredSysInfo() (v storage.SystemInfo, err error) {
	p.out.do(func() { v, err = p.be.StoredSysInfo() })
	return
}

// ---------------------------------------------------------------------------------------------------
// broker + store runs (C20 clean restart, C21 crash at write k)

type storeRun struct {
	kind    string
	dir     string
	out     *outside
	proxy   *storeProxy
	crashAt int
	opened  int
	err     error
}

func (sr *storeRun) attach(ex *Ex) {
	var be mqtt.Hook
	sr.out.do(func() { be, sr.err = openBackend(sr.kind, sr.dir) })
	if sr.err != nil {
		panic(fmt.Sprintf("TOOLING cannot open %s backend: %v", sr.kind, sr.err))
	}
	sr.opened++
	crash := -1
	if sr.opened == 1 {
		crash = sr.crashAt
	}
	sr.proxy = &storeProxy{be: be, out: sr.out, ex: ex, crashAt: crash}
	_ = ex.Srv.AddHook(sr.proxy, nil)
}

// restart closes the running broker (cleanly, or after a simulated crash that has already cut the storage
// writes) and starts a new one on the same store.
func (sr *storeRun) restart(ex *Ex) {
	old := sr.proxy
	ex.H.add(&Ev{Kind: "restart", Conn: -1, N: int64(old.writes)})
	ex.Stats.Faults["broker.restart"]++
	// stop the old broker under the scheduler
	ex.serverClosed = false
	ex.startServerClose(-1)
	if !ex.drive() {
		return
	}
	for _, c := range ex.Conns {
		if !c.isClosed() {
			c.peerClose("restart")
		}
	}
	if !ex.drive() {
		return
	}
	_ = old.Stop()
	ex.serverClosed = false
	ex.buildServerOnly()
	sr.attach(ex)
	ex.sc.Spawn(fmt.Sprintf("serve%d", sr.opened), func() { _ = ex.Srv.Serve() })
	ex.drive()
}

type StoreCase struct {
	Backend string `json:"backend"`
	CrashAt int    `json:"crashAt"` // -1: clean restart
	Plan    *Plan  `json:"plan"`
}

func storeAlphabet() ([]string, []string, []string) {
	ids := []string{"a", "b:c", "b", "d_e", "ü", "a:t"}
	topics := []string{"t", "c:t", "x/y", "t:1", "ü/t"}
	filters := []string{"t", "c:t", "x/y", "t:1", "ü/t", "x/+"}
	return ids, topics, filters
}

func genStorePlan(t *Tape, name string) *Plan {
	ids, topics, filters := storeAlphabet()
	k := DefaultKnobs()
	k.Slots = 4
	k.IDs = []string{pickStr(t, "st.id0", ids), pickStr(t, "st.id1", ids), pickStr(t, "st.id2", ids), "pub"}
	k.Topics = topics
	k.Filters = filters
	k.Ops = 14
	k.WConnect, k.WSub, k.WUnsub, k.WPub, k.WDisc, k.WDrop, k.WAck = 3, 5, 1, 8, 2, 1, 2
	k.CleanPct = 20
	k.V5Pct = 60
	k.ExpiryChoices = []uint32{300, 300, 0xFFFFFFFF, 0}
	k.RetainPct = 45
	k.QosW = [3]int{1, 3, 2}
	k.SubQosW = [3]int{0, 3, 2}
	k.ManualAckPct = 50
	k.MsgExpiryChoices = []uint32{0, 0, 60}
	k.PropsPct = 30
	k.SubIDPct = 30
	k.RAPPct = 20
	// identifiers and filters that contain the separator the key scheme uses
	adversarial := t.Draw("st.adversarial", 2) == 1
	if adversarial {
		k.IDs = []string{"b:c", "b", pickStr(t, "st.id2", ids), "pub"}
		k.Filters = []string{"t", "c:t", "x/y"}
		k.Topics = []string{"t", "c:t", "x/y"}
		k.CleanPct = 0
		k.ExpiryChoices = []uint32{300}
	}
	k.AdvMs = []int{1000, 2000, 3000}
	k.MsgExpiryChoices = []uint32{0, 0, 5, 60}
	g := NewGen(t, &k, name)
	cfg := &g.plan.Cfg
	cfg.Strategy = 0
	if adversarial {
		g.Connect(0)
		g.plan.Ops = append(g.plan.Ops, Op{Kind: "subscribe", Slot: 0, Pkt: &refcodec.Packet{Type: refcodec.SUBSCRIBE, PacketID: 501, Filters: []refcodec.Filter{{Filter: "t", Opts: 1}}}})
		g.slots[0].subs = append(g.slots[0].subs, "t")
		g.Connect(1)
		g.plan.Ops = append(g.plan.Ops, Op{Kind: "subscribe", Slot: 1, Pkt: &refcodec.Packet{Type: refcodec.SUBSCRIBE, PacketID: 502, Filters: []refcodec.Filter{{Filter: "c:t", Opts: 1}}}})
		g.slots[1].subs = append(g.slots[1].subs, "c:t")
	}
	if !adversarial && t.Draw("st.qos2half", 3) == 0 {
		// a QoS 2 delivery stopped half way, then the session is resumed once *before* the restart: a persistent
		// subscriber acknowledges by hand, sends PUBREC (or nothing) and no PUBCOMP, loses the connection and
		// reconnects with clean start 0. What the resume re-registers (PUBLISH or PUBREL) is what the store must hold.
		ci := g.Connect(0)
		g.plan.Ops[ci].Pkt.CleanStart = false
		g.plan.Ops[ci].AckMode = 1
		if g.plan.Ops[ci].Pkt.ProtoVer == 5 {
			var props refcodec.Props
			for _, pr := range g.plan.Ops[ci].Pkt.Props {
				if pr.ID != refcodec.PSessionExpiry {
					props = append(props, pr)
				}
			}
			g.plan.Ops[ci].Pkt.Props = append(props, refcodec.Prop{ID: refcodec.PSessionExpiry, Int: 300})
		}
		g.plan.Ops = append(g.plan.Ops, Op{Kind: "subscribe", Slot: 0, Pkt: &refcodec.Packet{Type: refcodec.SUBSCRIBE, PacketID: 503, Filters: []refcodec.Filter{{Filter: topics[0], Opts: 2}}}})
		g.slots[0].subs = append(g.slots[0].subs, topics[0])
		g.Connect(3)
		pi := g.Publish(3)
		g.plan.Ops[pi].Pkt.Topic, g.plan.Ops[pi].Pkt.Qos, g.plan.Ops[pi].Pkt.Retain = topics[0], 2, false
		if g.plan.Ops[pi].Pkt.PacketID == 0 {
			g.plan.Ops[pi].Pkt.PacketID = g.pid(3)
		}
		if t.Draw("st.qos2half.pubrec", 3) > 0 {
			g.add(Op{Kind: "ack", Slot: 0, N: 0}) // PUBREC: the broker answers PUBREL and waits for PUBCOMP
		}
		g.Drop(0)
		ci2 := g.Connect(0)
		g.plan.Ops[ci2].Pkt.CleanStart = false
		g.plan.Ops[ci2].Pkt.ProtoVer = g.plan.Ops[ci].Pkt.ProtoVer
		g.plan.Ops[ci2].Pkt.Props = g.plan.Ops[ci].Pkt.Props
		g.plan.Ops[ci2].AckMode = 1
		g.slots[0].ver = g.plan.Ops[ci].Pkt.ProtoVer
	}
	n := 6 + t.Draw("st.len", 9)
	for len(g.plan.Ops) < n {
		g.Step()
	}
	if t.Draw("st.advance", 3) == 0 {
		g.plan.Ops = append(g.plan.Ops, Op{Kind: "advance", Ms: 1000 * (1 + t.Draw("st.advms", 3))})
	}
	for i := range g.plan.Ops {
		g.plan.Ops[i].Concurrent = false
	}
	g.plan.Ops = append(g.plan.Ops, Op{Kind: "restart"})
	// verification phase: everybody comes back with clean start 0, then probes
	for s := 0; s < 3; s++ {
		ver := byte(4)
		if g.slots[s].ver == 5 {
			ver = 5
		}
		p := &refcodec.Packet{Type: refcodec.CONNECT, ProtoVer: ver, ClientID: g.slots[s].id, CleanStart: false}
		if t.Draw("st.verify.clean", 3) == 0 {
			// ... or with clean start 1: nothing of the restored session may then reach the new connection
			p.CleanStart = true
		}
		if ver == 5 {
			p.Props = refcodec.Props{{ID: refcodec.PSessionExpiry, Int: 300}}
		}
		g.plan.Ops = append(g.plan.Ops, Op{Kind: "connect", Slot: s, Pkt: p, Note: "verify"})
	}
	g.plan.Ops = append(g.plan.Ops, Op{Kind: "connect", Slot: 8, Pkt: &refcodec.Packet{Type: refcodec.CONNECT, ProtoVer: 5, ClientID: "probe", CleanStart: true}, Note: "verify"})
	for _, tp := range topics {
		opIdx := len(g.plan.Ops)
		g.plan.Ops = append(g.plan.Ops, Op{Kind: "publish", Slot: 8, Pkt: &refcodec.Packet{Type: refcodec.PUBLISH, Topic: tp, Payload: fmt.Sprintf("m%d", opIdx)}, Note: "verify"})
	}
	g.plan.Ops = append(g.plan.Ops, Op{Kind: "subscribe", Slot: 8, Pkt: &refcodec.Packet{Type: refcodec.SUBSCRIBE, PacketID: 900, Filters: []refcodec.Filter{{Filter: "#", Opts: 2}}}, Note: "verify"})
	return g.plan
}

// runStoreCase executes a plan with a real backend; crashAt >= 0 cuts storage writes after that many.
func runStoreCase(t *testing.T, sc *StoreCase, tape *Tape) (*Result, int) {
	dir, err := os.MkdirTemp("", "verifstore-")
	if err != nil {
		panic(err)
	}
	defer os.RemoveAll(dir)
	sr := &storeRun{kind: sc.Backend, dir: dir, out: newOutside(), crashAt: sc.CrashAt}
	defer sr.out.stop()
	storeSetup = func(ex *Ex) {
		sr.attach(ex)
		ex.RestartFn = sr.restart
	}
	defer func() { storeSetup = nil }()
	res := RunPlan(t, sc.Plan, tape)
	writes := 0
	for _, e := range res.H.Evs {
		if e.Kind == "restart" {
			writes = int(e.N)
			break
		}
	}
	// release whatever engine handle is still open
	if sr.proxy != nil {
		_ = sr.proxy.Stop()
	}
	return res, writes
}

var storeSetup func(ex *Ex)

func restartSeq(r *Result) int {
	for _, e := range r.H.Evs {
		if e.Kind == "restart" {
			return e.Seq
		}
	}
	return -1
}

func crashSeq(r *Result) int {
	for _, e := range r.H.Evs {
		if e.Kind == "fault" && e.Str == "store.crash_at" {
			return e.Seq
		}
	}
	return -1
}

// judgeAfterRestart applies the behavioural oracles to the verification phase.
func judgeAfterRestart(r *Result, prop string, backend string) []Violation {
	var out []Violation
	rs := restartSeq(r)
	if rs < 0 {
		return nil
	}
	keep := func(v Violation, cls string) {
		if v.Seq >= 0 && v.Seq < rs {
			return
		}
		v.Property = prop
		v.Class = cls
		if v.Features == nil {
			v.Features = map[string]string{}
		}
		v.Features["backend"] = backendClass(backend)
		if cls == "subscription-not-restored" || cls == "discarded-state-resurrected" || cls == "unexpected-delivery-after-restart" {
			v.Features["key_collision"] = fmt.Sprint(planKeyCollision(r.Plan))
		}
		v.Detail = "[" + backend + "] after restart: " + v.Detail
		out = append(out, v)
	}
	// A message that was past PUBREC and comes back as PUBLISH (DUP) after the restart is still the same
	// unacknowledged in-flight message, one step earlier in its exchange (the broker stores the PUBREL stage only
	// when the session is next resumed); the statements speak of the messages being there, so that is not judged
	// here. A message for which neither PUBREL nor PUBLISH comes back is lost.
	regressed := map[string]bool{}
	for _, v := range checkOutboundFlows(r, "C09") {
		if v.Class == "publish-resent-after-pubrec" {
			if i := strings.Index(v.Detail, " was past PUBREC"); i > 0 {
				regressed[v.Detail[:i]] = true
			}
		}
	}
	for _, v := range checkC14(r) {
		switch v.Class {
		case "session-present":
			keep(v, "session-not-restored")
		case "resumed-subscription-lost":
			keep(v, "subscription-not-restored")
		case "resumed-inflight-lost":
			if i := strings.Index(v.Detail, " was past PUBREC"); i > 0 && regressed[v.Detail[:i]] {
				continue
			}
			keep(v, "inflight-not-restored")
		case "state-survived-clean-start":
			keep(v, "discarded-state-resurrected")
		}
	}
	for _, v := range checkDelivery(r, "C03") {
		switch v.Class {
		case "unexpected-delivery":
			keep(v, "unexpected-delivery-after-restart")
		case "missing-delivery":
			if !strings.HasPrefix(v.Features["session"], "resumed") {
				continue
			}
			keep(v, "subscription-not-restored")
		}
	}
	for _, v := range checkRetainedReplay(r, "C05") {
		switch v.Class {
		case "missing-retained", "stale-retained":
			keep(v, "retained-not-restored")
		case "unexpected-retained":
			keep(v, "cleared-retained-resurrected")
		}
	}
	for _, v := range checkDelivery(r, "C04") {
		if v.Class == "delivered-qos" || v.Class == "retain-flag" || v.Class == "subscription-identifiers" {
			if v.Features["delivery"] == "retained" {
				continue // retained replays never carry subscription identifiers (an open C04 finding, not a restart effect)
			}
			keep(v, "subscription-options-not-restored")
		}
	}
	for _, v := range checkC25(r) {
		if (v.Class == "expiry-interval-too-large" || v.Class == "expired-message-delivered") && v.Features["path"] != "live" {
			keep(v, "message-expiry-not-restored")
		}
	}
	return out
}

func backendClass(b string) string { return b }

// planKeyCollision reports whether two different (client id, filter) subscriptions of the plan concatenate to
// the same "<id>:<filter>" string (the storage key the bundled backends derive for a subscription).
func planKeyCollision(p *Plan) bool {
	slotID := map[int]string{}
	keys := map[string]string{}
	for i := range p.Ops {
		op := &p.Ops[i]
		if op.Pkt == nil {
			continue
		}
		switch op.Kind {
		case "connect":
			slotID[op.Slot] = op.Pkt.ClientID
		case "subscribe", "unsubscribe":
			id := slotID[op.Slot]
			for _, f := range op.Pkt.Filters {
				k := id + ":" + f.Filter
				pair := id + "\x00" + f.Filter
				if prev, ok := keys[k]; ok && prev != pair {
					return true
				}
				keys[k] = pair
			}
		}
	}
	return false
}

func runC20(p *Profile, seed uint64, rf *ReplayFile) *RunOutcome {
	var sc *StoreCase
	var tape *Tape
	if rf != nil {
		sc = &StoreCase{}
		_ = json.Unmarshal(rf.Extra, sc)
		tape = ReplayTape(rf.Sched)
	} else {
		t := NewTape(seed)
		sc = &StoreCase{Backend: backends[t.Draw("st.backend", len(backends))], CrashAt: -1}
		sc.Plan = genStorePlan(t, "C20")
		tape = NewTape(mix(seed + 0x5ced))
	}
	res, writes := runStoreCase(unitT, sc, tape)
	lastResult = res
	o := &RunOutcome{Digest: res.Digest, Stats: res.Stats, Leak: res.BubbleLeak, SiteHits: res.Ex.SiteHits, SitePark: res.Ex.SitePark}
	seen := map[string]bool{}
	for _, v := range judgeAfterRestart(res, "C20", sc.Backend) {
		if !seen[v.Fingerprint()] {
			seen[v.Fingerprint()] = true
			o.Violations = append(o.Violations, v)
		}
	}
	for _, v := range universalChecks(res) {
		o.Other = append(o.Other, v)
	}
	o.Relevant = writes > 0 && restartSeq(res) >= 0
	o.Probes = append(o.Probes, "backend-"+sc.Backend)
	for _, c := range res.Ex.Conns {
		if r := restartSeq(res); r >= 0 && c.openSeq > r {
			if ca := connack(c); ca != nil && ca.P.SessionPresent {
				o.Probes = append(o.Probes, "session-restored")
			}
			for _, pr := range c.Pkts {
				if pr.P.Type == refcodec.PUBLISH && pr.P.Dup {
					o.Probes = append(o.Probes, "inflight-redelivered-after-restart")
				}
				if pr.P.Type == refcodec.PUBLISH && pr.P.Retain {
					o.Probes = append(o.Probes, "retained-replayed-after-restart")
				}
			}
		}
	}
	extra, _ := json.Marshal(sc)
	o.Replay = &ReplayFile{V: 1, Property: p.Name, Profile: p.Name, Engine: "B", RunSeed: seed, Extra: extra, Sched: append([]uint32(nil), tape.Rec...), Digest: res.Digest, Steps: res.Stats.Steps}
	o.Sample = map[string]any{"backend": sc.Backend, "storage_writes": writes, "run": sampleOf(res)}
	o.StateSigs = stateSigs(res)
	return o
}

// ---------------------------------------------------------------------------------------------------
// C21: crash at every storage-write boundary of a history

func runC21(p *Profile, seed uint64, rf *ReplayFile) *RunOutcome {
	var sc *StoreCase
	var tape *Tape
	if rf != nil {
		sc = &StoreCase{}
		_ = json.Unmarshal(rf.Extra, sc)
		res, _ := runStoreCase(unitT, sc, ReplayTape(rf.Sched))
		lastResult = res
		o := &RunOutcome{Digest: res.Digest, Stats: res.Stats}
		o.Violations = dedup(judgeAfterCrash(res, sc))
		extra, _ := json.Marshal(sc)
		o.Replay = &ReplayFile{V: 1, Property: p.Name, Profile: p.Name, Engine: "B", RunSeed: seed, Extra: extra, Sched: rf.Sched, Digest: res.Digest}
		return o
	}
	t := NewTape(seed)
	// crash enumeration is done on the fast engines for most histories; the slow ones are sampled
	be := []string{"bolt", "bolt", "redis", "redis", "pebble", "badger"}[t.Draw("st.backend21", 6)]
	plan := genStorePlan(t, "C21")
	tape = NewTape(mix(seed + 0x5ced))
	base := &StoreCase{Backend: be, CrashAt: -1, Plan: plan}
	res0, n := runStoreCase(unitT, base, tape)
	o := &RunOutcome{Digest: res0.Digest, Stats: res0.Stats, SiteHits: res0.Ex.SiteHits, SitePark: res0.Ex.SitePark}
	o.Stats.Faults = map[string]int{}
	digests := res0.Digest
	var firstViol *StoreCase
	var firstTape []uint32
	for k := 0; k <= n; k++ {
		sc = &StoreCase{Backend: be, CrashAt: k, Plan: clonePlan(plan)}
		tp := ReplayTape(tape.Rec)
		res, _ := runStoreCase(unitT, sc, tp)
		lastResult = res
		o.Stats.Steps += res.Stats.Steps
		o.Stats.Faults["store.crash_at"]++
		o.Stats.Faults["broker.restart"]++
		digests += res.Digest
		vs := dedup(judgeAfterCrash(res, sc))
		for _, v := range vs {
			dup := false
			for _, e := range o.Violations {
				if e.Fingerprint() == v.Fingerprint() {
					dup = true
				}
			}
			if !dup {
				o.Violations = append(o.Violations, v)
				if firstViol == nil {
					firstViol, firstTape = sc, append([]uint32(nil), tp.Rec...)
				}
				if o.ReplayFor == nil {
					o.ReplayFor = map[string]*ReplayFile{}
				}
				ex, _ := json.Marshal(sc)
				o.ReplayFor[v.Fingerprint()] = &ReplayFile{V: 1, Property: p.Name, Profile: p.Name, Engine: "B", RunSeed: seed, Extra: ex, Sched: append([]uint32(nil), tp.Rec...), Digest: res.Digest}
			}
		}
	}
	o.Digest = shortHash(digests)
	o.Relevant = n > 0
	o.Probes = append(o.Probes, "backend-"+be, fmt.Sprintf("crash-points-%d", minInt(n+1, 40)/10*10))
	rsc := base
	rt := tape.Rec
	if firstViol != nil {
		rsc, rt = firstViol, firstTape
	}
	extra, _ := json.Marshal(rsc)
	o.Replay = &ReplayFile{V: 1, Property: p.Name, Profile: p.Name, Engine: "B", RunSeed: seed, Extra: extra, Sched: append([]uint32(nil), rt...), Digest: o.Digest}
	o.Sample = map[string]any{"backend": be, "storage_writes": n, "crash_points_enumerated": n + 1, "run": sampleOf(res0)}
	return o
}

func minInt(a, b int) int {
	if a < b {
		return a
	}
	return b
}

func dedup(vs []Violation) []Violation {
	seen := map[string]bool{}
	var out []Violation
	for _, v := range vs {
		if !seen[v.Fingerprint()] {
			seen[v.Fingerprint()] = true
			out = append(out, v)
		}
	}
	return out
}

// judgeAfterCrash: everything acknowledged to a client before the crash instant (and not removed before it)
// is still there after the restart; nothing discarded before the crash comes back. State whose
// acknowledgement falls after the crash instant carries no obligation.
func judgeAfterCrash(r *Result, sc *StoreCase) []Violation {
	cs := crashSeq(r)
	rs := restartSeq(r)
	if rs < 0 {
		return nil
	}
	if cs < 0 || cs > rs {
		cs = rs // the cut fell on a write issued by the shutdown itself: the crash instant is the restart
	}
	// operations (before the restart) whose window ends after the crash instant are uncertain: drop their
	// obligations by judging with a plan in which the model treats them as not acknowledged.
	uncertainFrom := -1
	ws := BuildWindows(r)
	for _, w := range ws {
		if w.EndSeq >= cs && w.StartSeq < rs {
			uncertainFrom = w.Ops[0]
			break
		}
	}
	var out []Violation
	for _, v := range judgeAfterRestart(r, "C21", sc.Backend) {
		if uncertainFrom >= 0 && violationTouchesOpsFrom(r, v, uncertainFrom, rs, cs) {
			continue
		}
		if v.Class == "discarded-state-resurrected" || v.Class == "unexpected-delivery-after-restart" {
			// the statement speaks of sessions that were clean, expired or taken over *before* the crash; a
			// session that was still connected at the crash instant is not covered
			liveAtCrash := false
			for _, c := range r.Ex.Conns {
				ca := connack(c)
				if ca == nil || ca.P.ReasonCode != 0 || ca.Seq > cs || !strings.Contains(v.Detail, fmt.Sprintf("session %q", c.CID)) {
					continue
				}
				bc, pc := brokerCloseSeq(r.H, c.Idx), peerCloseSeq(r.H, c.Idx)
				if (bc < 0 || bc > cs) && (pc < 0 || pc > cs) {
					liveAtCrash = true
				}
			}
			if liveAtCrash {
				continue
			}
		}
		v.Features["crash"] = "write-boundary"
		v.Detail = fmt.Sprintf("crash after storage write %d: %s", sc.CrashAt, v.Detail)
		out = append(out, v)
	}
	return out
}

// opAckedBefore reports whether operation i (a QoS>0 publish, a subscribe or an unsubscribe) was positively
// acknowledged to its client before history position cs. The acknowledgement must be attributable: no other
// operation of the same slot from the cut window on uses the same packet identifier.
func opAckedBefore(r *Result, m *Model, i int, cs int) bool {
	op := &r.Plan.Ops[i]
	if op.Pkt == nil || op.Pkt.PacketID == 0 {
		return false
	}
	var want []byte
	switch {
	case op.Kind == "publish" && op.Pkt.Type == refcodec.PUBLISH && op.Pkt.Qos == 1:
		want = []byte{refcodec.PUBACK}
	case op.Kind == "publish" && op.Pkt.Type == refcodec.PUBLISH && op.Pkt.Qos == 2:
		want = []byte{refcodec.PUBREC}
	case op.Kind == "subscribe":
		want = []byte{refcodec.SUBACK}
	case op.Kind == "unsubscribe":
		want = []byte{refcodec.UNSUBACK}
	default:
		return false
	}
	c := m.connOfOp(i)
	if c == nil {
		return false
	}
	opSeq := -1
	for _, e := range r.H.Evs {
		if e.Kind == "op" && e.Op == i {
			opSeq = e.Seq
			break
		}
	}
	if opSeq < 0 {
		return false
	}
	for _, w := range BuildWindows(r) {
		mine := false
		for _, j := range w.Ops {
			mine = mine || j == i
		}
		if !mine {
			continue
		}
		for _, j := range w.Ops {
			o2 := &r.Plan.Ops[j]
			if j != i && o2.Slot == op.Slot && o2.Pkt != nil && o2.Pkt.PacketID == op.Pkt.PacketID {
				return false
			}
		}
	}
	for _, pr := range c.Pkts {
		if pr.Seq > opSeq && pr.Seq < cs && pr.P.PacketID == op.Pkt.PacketID && pr.P.Type == want[0] {
			if (pr.P.Type == refcodec.PUBACK || pr.P.Type == refcodec.PUBREC) && pr.P.ReasonCode >= 0x80 {
				return false
			}
			return true
		}
	}
	return false
}

// violationTouchesOpsFrom reports whether a post-restart violation may stem from an operation issued at or
// after op index `from` (those were cut by the crash, so the model's expectation is not an obligation).
func violationTouchesOpsFrom(r *Result, v Violation, from int, restartSeq int, cs int) bool {
	// conservative: collect session ids / topics / filters touched by the cut operations
	m := NewModel(r)
	touched := map[string]bool{}
	for i := from; i < len(r.Plan.Ops); i++ {
		op := &r.Plan.Ops[i]
		if op.Kind == "restart" {
			break
		}
		if opAckedBefore(r, m, i, cs) {
			continue // acknowledged to its client before the crash instant: its obligations stand
		}
		if c := m.connOfOp(i); c != nil {
			touched["sess:"+c.CID] = true
		}
		if op.Pkt != nil {
			if op.Pkt.ClientID != "" {
				touched["sess:"+op.Pkt.ClientID] = true
			}
			if op.Pkt.Topic != "" {
				touched["topic:"+op.Pkt.Topic] = true
			}
			for _, f := range op.Pkt.Filters {
				touched["filter:"+f.Filter] = true
			}
		}
	}
	for k := range touched {
		name := k[strings.IndexByte(k, ':')+1:]
		if strings.Contains(v.Detail, fmt.Sprintf("%q", name)) {
			return true
		}
	}
	return false
}

// ---------------------------------------------------------------------------------------------------
// C22: the four backends return the same stored state for the same event sequence

type StoreEvent struct {
	Op      string `json:"op"`
	Client  string `json:"client,omitempty"`
	Filter  string `json:"filter,omitempty"`
	Topic   string `json:"topic,omitempty"`
	Payload string `json:"payload,omitempty"`
	PID     uint16 `json:"pid,omitempty"`
	Qos     byte   `json:"qos,omitempty"`
	Flag    bool   `json:"flag,omitempty"`
	Ver     byte   `json:"ver,omitempty"`
	Expiry  uint32 `json:"expiry,omitempty"`
}

func genC22Case(t *Tape) []StoreEvent {
	ids, topics, filters := storeAlphabet()
	var evs []StoreEvent
	n := 4 + t.Draw("c22.len", 14)
	for i := 0; i < n; i++ {
		cl := pickStr(t, "c22.client", ids)
		switch t.Pick("c22.op", []int{3, 2, 4, 2, 4, 2, 3, 2, 1, 1, 1, 1}) {
		case 0:
			evs = append(evs, StoreEvent{Op: "established", Client: cl, Ver: []byte{4, 5}[t.Draw("c22.ver", 2)], Flag: t.Draw("c22.clean", 2) == 1, Expiry: []uint32{0, 30}[t.Draw("c22.exp", 2)], Payload: []string{"", "willp"}[t.Draw("c22.will", 2)]})
		case 1:
			evs = append(evs, StoreEvent{Op: "disconnect", Client: cl, Flag: t.Draw("c22.expire", 2) == 1})
		case 2:
			evs = append(evs, StoreEvent{Op: "subscribed", Client: cl, Filter: pickStr(t, "c22.filter", filters), Qos: byte(t.Draw("c22.qos", 3)), Flag: t.Draw("c22.nl", 2) == 1, PID: uint16(t.Draw("c22.reqabove", 2))})
		case 3:
			evs = append(evs, StoreEvent{Op: "unsubscribed", Client: cl, Filter: pickStr(t, "c22.filter", filters)})
		case 4:
			evs = append(evs, StoreEvent{Op: "retain", Client: cl, Topic: pickStr(t, "c22.topic", topics), Payload: fmt.Sprintf("r%d", i), Qos: byte(t.Draw("c22.qos", 3)), Expiry: []uint32{0, 60}[t.Draw("c22.mexp", 2)]})
		case 5:
			evs = append(evs, StoreEvent{Op: "retain_clear", Client: cl, Topic: pickStr(t, "c22.topic", topics)})
		case 6:
			evs = append(evs, StoreEvent{Op: "qos_publish", Client: cl, Topic: pickStr(t, "c22.topic", topics), Payload: fmt.Sprintf("q%d", i), PID: uint16(1 + t.Draw("c22.pid", 4)), Qos: byte(1 + t.Draw("c22.q12", 2))})
		case 7:
			evs = append(evs, StoreEvent{Op: "qos_complete", Client: cl, PID: uint16(1 + t.Draw("c22.pid", 4))})
		case 8:
			evs = append(evs, StoreEvent{Op: "qos_dropped", Client: cl, PID: uint16(1 + t.Draw("c22.pid", 4))})
		case 9:
			evs = append(evs, StoreEvent{Op: "client_expired", Client: cl})
		case 10:
			evs = append(evs, StoreEvent{Op: "retained_expired", Topic: pickStr(t, "c22.topic", topics)})
		case 11:
			evs = append(evs, StoreEvent{Op: "sys_tick", PID: uint16(i)})
		}
	}
	return evs
}

func applyStoreEvents(h mqtt.Hook, srv *mqtt.Server, evs []StoreEvent) {
	clients := map[string]*mqtt.Client{}
	get := func(id string) *mqtt.Client {
		if c := clients[id]; c != nil {
			return c
		}
		c := srv.NewClient(nil, "sim", id, false)
		clients[id] = c
		return c
	}
	for _, e := range evs {
		switch e.Op {
		case "established":
			c := get(e.Client)
			c.Properties.ProtocolVersion = e.Ver
			c.Properties.Clean = e.Flag
			c.Properties.Props.SessionExpiryInterval = e.Expiry
			c.Properties.Props.SessionExpiryIntervalFlag = e.Expiry > 0
			c.Properties.Username = []byte("user:" + e.Client)
			if e.Payload != "" {
				c.Properties.Will = mqtt.Will{Flag: 1, TopicName: "w:" + e.Client, Payload: []byte(e.Payload), Qos: 1}
			}
			h.OnSessionEstablished(c, packets.Packet{})
		case "disconnect":
			h.OnDisconnect(get(e.Client), nil, e.Flag)
		case "subscribed":
			// the filter carries the QoS the client asked for, the reason code the QoS the broker granted (lower when
			// the server's maximum is): what a faithful store keeps is the granted one
			req := e.Qos + byte(e.PID)
			if req > 2 {
				req = 2
			}
			h.OnSubscribed(get(e.Client), packets.Packet{Filters: packets.Subscriptions{{Filter: e.Filter, Qos: req, NoLocal: e.Flag, Identifier: int(e.Qos) * 3}}}, []byte{e.Qos})
		case "unsubscribed":
			h.OnUnsubscribed(get(e.Client), packets.Packet{Filters: packets.Subscriptions{{Filter: e.Filter}}})
		case "retain":
			pk := packets.Packet{FixedHeader: packets.FixedHeader{Type: packets.Publish, Retain: true, Qos: e.Qos}, TopicName: e.Topic, Payload: []byte(e.Payload), Origin: e.Client, Created: 1000,
				Properties: packets.Properties{MessageExpiryInterval: e.Expiry, ContentType: "ct", User: []packets.UserProperty{{Key: "k", Val: "v"}}}}
			h.OnRetainMessage(get(e.Client), pk, 1)
		case "retain_clear":
			h.OnRetainMessage(get(e.Client), packets.Packet{FixedHeader: packets.FixedHeader{Type: packets.Publish, Retain: true}, TopicName: e.Topic}, -1)
		case "qos_publish":
			pk := packets.Packet{FixedHeader: packets.FixedHeader{Type: packets.Publish, Qos: e.Qos}, TopicName: e.Topic, Payload: []byte(e.Payload), PacketID: e.PID, Origin: "o", Created: 1000}
			h.OnQosPublish(get(e.Client), pk, 1000, 0)
		case "qos_complete":
			h.OnQosComplete(get(e.Client), packets.Packet{FixedHeader: packets.FixedHeader{Type: packets.Puback}, PacketID: e.PID})
		case "qos_dropped":
			h.OnQosDropped(get(e.Client), packets.Packet{PacketID: e.PID})
		case "client_expired":
			h.OnClientExpired(get(e.Client))
		case "retained_expired":
			h.OnRetainedExpired(e.Topic)
		case "sys_tick":
			h.OnSysInfoTick(&system.Info{Version: "v", Uptime: int64(e.PID), Retained: int64(e.PID), Subscriptions: 3})
		}
	}
}

// storedView renders what a backend returns, normalised (order ignored; storage-internal fields dropped).
func storedView(h mqtt.Hook) map[string][]string {
	v := map[string][]string{}
	cls, _ := h.StoredClients()
	for _, c := range cls {
		v["clients"] = append(v["clients"], fmt.Sprintf("%s|v%d|clean=%v|exp=%d/%v|user=%s|will=%s/%s/%d", c.ID, c.ProtocolVersion, c.Clean, c.Properties.SessionExpiryInterval, c.Properties.SessionExpiryIntervalFlag, c.Username, c.Will.TopicName, c.Will.Payload, c.Will.Flag))
	}
	subs, _ := h.StoredSubscriptions()
	for _, s := range subs {
		v["subscriptions"] = append(v["subscriptions"], fmt.Sprintf("%s|%s|q%d|nl=%v|id=%d", s.Client, s.Filter, s.Qos, s.NoLocal, s.Identifier))
	}
	ret, _ := h.StoredRetainedMessages()
	for _, m := range ret {
		v["retained"] = append(v["retained"], fmt.Sprintf("%s|%s|q%d|exp=%d|ct=%s|user=%v|origin=%s", m.TopicName, m.Payload, m.FixedHeader.Qos, m.Properties.MessageExpiryInterval, m.Properties.ContentType, m.Properties.User, m.Origin))
	}
	inf, _ := h.StoredInflightMessages()
	for _, m := range inf {
		v["inflight"] = append(v["inflight"], fmt.Sprintf("%s|%s|%s|q%d|pid=%d", m.Client, m.TopicName, m.Payload, m.FixedHeader.Qos, m.PacketID))
	}
	si, _ := h.StoredSysInfo() // "nothing stored" may be reported as an error or as the zero value: both read as zero
	v["sysinfo"] = append(v["sysinfo"], fmt.Sprintf("uptime=%d|retained=%d|subs=%d|ver=%s", si.Uptime, si.Retained, si.Subscriptions, si.Version))
	for k := range v {
		sort.Strings(v[k])
	}
	return v
}

// refStoredView is the in-memory model of what a faithful store holds after the event sequence.
func refStoredView(evs []StoreEvent) map[string][]string {
	type cli struct {
		ver   byte
		clean bool
		exp   uint32
		will  string
	}
	clients := map[string]*cli{}
	live := map[string]*cli{} // client objects keep their properties even when the record is deleted
	subs := map[string]string{}
	ret := map[string]string{}
	inf := map[string]string{}
	sys := ""
	for _, e := range evs {
		switch e.Op {
		case "established":
			c := live[e.Client]
			if c == nil {
				c = &cli{}
				live[e.Client] = c
			}
			c.ver, c.clean, c.exp = e.Ver, e.Flag, e.Expiry
			if e.Payload != "" {
				c.will = e.Payload
			}
			clients[e.Client] = c
		case "disconnect":
			if e.Flag {
				delete(clients, e.Client)
			}
		case "client_expired":
			delete(clients, e.Client)
		case "subscribed":
			subs[e.Client+"\x00"+e.Filter] = fmt.Sprintf("%s|%s|q%d|nl=%v|id=%d", e.Client, e.Filter, e.Qos, e.Flag, int(e.Qos)*3)
		case "unsubscribed":
			delete(subs, e.Client+"\x00"+e.Filter)
		case "retain":
			ret[e.Topic] = fmt.Sprintf("%s|%s|q%d|exp=%d|ct=ct|user=[{k v}]|origin=%s", e.Topic, e.Payload, e.Qos, e.Expiry, e.Client)
		case "retain_clear", "retained_expired":
			delete(ret, e.Topic)
		case "qos_publish":
			inf[fmt.Sprintf("%s\x00%d", e.Client, e.PID)] = fmt.Sprintf("%s|%s|%s|q%d|pid=%d", e.Client, e.Topic, e.Payload, e.Qos, e.PID)
		case "qos_complete", "qos_dropped":
			delete(inf, fmt.Sprintf("%s\x00%d", e.Client, e.PID))
		case "sys_tick":
			sys = fmt.Sprintf("uptime=%d|retained=%d|subs=3|ver=v", e.PID, e.PID)
		}
	}
	v := map[string][]string{}
	for id, c := range clients {
		will := "//0"
		if c.will != "" {
			will = fmt.Sprintf("w:%s/%s/1", id, c.will)
		}
		v["clients"] = append(v["clients"], fmt.Sprintf("%s|v%d|clean=%v|exp=%d/%v|user=user:%s|will=%s", id, c.ver, c.clean, c.exp, c.exp > 0, id, will))
	}
	for _, s := range subs {
		v["subscriptions"] = append(v["subscriptions"], s)
	}
	for _, s := range ret {
		v["retained"] = append(v["retained"], s)
	}
	for _, s := range inf {
		v["inflight"] = append(v["inflight"], s)
	}
	if sys == "" {
		sys = "uptime=0|retained=0|subs=0|ver=" // nothing stored reads back as the zero value
	}
	v["sysinfo"] = []string{sys}
	for k := range v {
		sort.Strings(v[k])
	}
	return v
}

func runC22(p *Profile, seed uint64, rf *ReplayFile) *RunOutcome {
	var evs []StoreEvent
	if rf != nil {
		_ = json.Unmarshal(rf.Extra, &evs)
	} else {
		evs = genC22Case(NewTape(seed))
	}
	o := &RunOutcome{}
	o.Stats.Faults = map[string]int{}
	views := map[string]map[string][]string{}
	srv := mqtt.New(&mqtt.Options{Logger: discardLogger()})
	for _, b := range backends {
		dir, err := os.MkdirTemp("", "verifc22-")
		if err != nil {
			panic(err)
		}
		h, err := openBackend(b, dir)
		if err != nil {
			fmt.Println("TOOLING cannot open backend", b, err)
			os.Exit(2)
		}
		applyStoreEvents(h, srv, evs)
		live := storedView(h)
		// read back once more through a freshly opened store on the same files (what a restarted broker sees):
		// engines with write buffers can answer differently before and after a flush
		_ = h.Stop()
		h2, err := openBackend(b, dir)
		if err != nil {
			fmt.Println("TOOLING cannot reopen backend", b, err)
			os.Exit(2)
		}
		views[b] = storedView(h2)
		_ = h2.Stop()
		for _, kd := range []string{"clients", "subscriptions", "retained", "inflight", "sysinfo"} {
			if a, c := strings.Join(live[kd], " ; "), strings.Join(views[b][kd], " ; "); a != c {
				o.Violations = append(o.Violations, viol("C22", "changes-on-reopen", fmt.Sprintf("%s after %d events: %s returns [%s] before the store is closed and [%s] after it is reopened", kd, len(evs), b, a, c), -1, "what", kd, "backend", b))
			}
		}
		os.RemoveAll(dir)
		o.Stats.Steps += len(evs)
	}
	ref := refStoredView(evs)
	kinds := []string{"clients", "subscriptions", "retained", "inflight", "sysinfo"}
	var buf bytes.Buffer
	for _, kd := range kinds {
		base := strings.Join(views["bolt"][kd], " ; ")
		fmt.Fprintf(&buf, "%s=%s|", kd, base)
		for _, b := range backends[1:] {
			got := strings.Join(views[b][kd], " ; ")
			if got != base {
				o.Violations = append(o.Violations, viol("C22", "backends-disagree", fmt.Sprintf("%s after %d events: bolt returns [%s], %s returns [%s]", kd, len(evs), base, b, got), -1, "what", kd, "backend", b))
			}
		}
		want := strings.Join(ref[kd], " ; ")
		for _, b := range backends {
			got := strings.Join(views[b][kd], " ; ")
			if got != want {
				feats := []string{"what", kd, "backend", b, "why", storeDiffWhy(got, want)}
				if kd == "subscriptions" {
					// do two different (client, filter) pairs concatenate to the same "<client>:<filter>"?
					keys, coll := map[string]string{}, false
					for _, e := range evs {
						if e.Op == "subscribed" || e.Op == "unsubscribed" {
							k, pair := e.Client+":"+e.Filter, e.Client+"\x00"+e.Filter
							if prev, ok := keys[k]; ok && prev != pair {
								coll = true
							}
							keys[k] = pair
						}
					}
					feats = append(feats, "key_collision", fmt.Sprint(coll))
				}
				o.Violations = append(o.Violations, viol("C22", "differs-from-model", fmt.Sprintf("%s after %d events: %s returns [%s], the in-memory model holds [%s]", kd, len(evs), b, got, want), -1, feats...))
			}
		}
	}
	o.Violations = dedup(o.Violations)
	o.Digest = shortHash(buf.String() + mustJSON(evs))
	o.Relevant = len(evs) >= 4
	for _, e := range evs {
		if strings.ContainsAny(e.Client+e.Filter+e.Topic, ":_ü") {
			o.Probes = append(o.Probes, "adversarial-key")
			break
		}
	}
	extra, _ := json.Marshal(evs)
	o.Replay = &ReplayFile{V: 1, Property: "C22", Profile: "C22", Engine: "B", RunSeed: seed, Extra: extra, Digest: o.Digest}
	o.Sample = map[string]any{"events": evs, "digest": o.Digest}
	return o
}

func storeDiffWhy(got, want string) string {
	var g, w []string
	if got != "" {
		g = strings.Split(got, " ; ")
	}
	if want != "" {
		w = strings.Split(want, " ; ")
	}
	if len(g) < len(w) {
		return "entries-missing"
	}
	if len(g) > len(w) {
		return "entries-extra"
	}
	return "fields-differ"
}

func init() {
	register(&Profile{Name: "C20", Engine: "B", Runner: runC20})
	register(&Profile{Name: "C21", Engine: "B", Runner: runC21})
	register(&Profile{Name: "C22", Engine: "B", Runner: runC22})
}
