package harness

import (
	"fmt"
	"strings"

	"verifharness/refcodec"
)

// ---------------------------------------------------------------------------------------------------
// C37: keepalive

func genC37(t *Tape) *Plan {
	plan := &Plan{Profile: "C37"}
	cfg := &plan.Cfg
	cfg.MaxQos, cfg.Auth = 2, "allow"
	GenSchedConfig(t, cfg)
	nconn := 1 + t.Draw("c37.nconn", 3)
	type cs struct{ k uint16 }
	var conns []cs
	subscribed := map[int]bool{}
	for s := 0; s < nconn; s++ {
		k := uint16(t.Draw("c37.k", 4))
		if t.Draw("c37.bigk", 6) == 0 {
			k = uint16(4 + t.Draw("c37.k2", 7))
		}
		ver := byte(4)
		if t.Draw("c37.v5", 2) == 1 {
			ver = 5
		}
		plan.Ops = append(plan.Ops, Op{Kind: "connect", Slot: s, Pkt: &refcodec.Packet{Type: refcodec.CONNECT, ProtoVer: ver, ClientID: fmt.Sprintf("k%d", s), CleanStart: true, KeepAlive: k}})
		conns = append(conns, cs{k})
		if t.Draw("c37.sub", 2) == 0 {
			subscribed[s] = true
			// the idle client also receives traffic: only packets *from* the client count for its keepalive
			plan.Ops = append(plan.Ops, Op{Kind: "subscribe", Slot: s, Pkt: &refcodec.Packet{Type: refcodec.SUBSCRIBE, PacketID: 1, Filters: []refcodec.Filter{{Filter: "t", Opts: byte(t.Draw("c37.subqos", 2))}}}})
		}
	}
	steps := 2 + t.Draw("c37.steps", 5)
	for i := 0; i < steps; i++ {
		s := t.Draw("c37.slot", nconn)
		k := int(conns[s].k)
		base := k
		if base == 0 {
			base = 2
		}
		// gaps on both sides of 1.5 K with a margin of at least K/4
		mult := []int{500, 1000, 1200, 1240, 1760, 1800, 2000, 3000}[t.Draw("c37.gap", 8)]
		plan.Ops = append(plan.Ops, Op{Kind: "advance", Ms: base * mult})
		kind := t.Draw("c37.pkt", 3)
		if !subscribed[s] && t.Draw("c37.split", 3) == 0 {
			// a streaming client / fragmenting path: one segment carries a whole PINGREQ and the first byte of the
			// next one, whose second byte follows after a further gap. (Only on connections that never receive
			// anything to acknowledge: the simulated client's own replies would land inside the split packet.)
			plan.Ops = append(plan.Ops, Op{Kind: "raw", Slot: s, Raw: []byte{0xC0, 0x00, 0xC0}, Note: "ping+prefix"})
			mult2 := []int{500, 1000, 1200, 1240, 1760, 2000}[t.Draw("c37.gap2", 6)]
			plan.Ops = append(plan.Ops, Op{Kind: "advance", Ms: base * mult2})
			plan.Ops = append(plan.Ops, Op{Kind: "raw", Slot: s, Raw: []byte{0x00}, Note: "rest"})
			continue
		}
		switch kind {
		case 0, 1:
			plan.Ops = append(plan.Ops, Op{Kind: "ping", Slot: s, Pkt: &refcodec.Packet{Type: refcodec.PINGREQ}})
		case 2:
			plan.Ops = append(plan.Ops, Op{Kind: "publish", Slot: s, Pkt: &refcodec.Packet{Type: refcodec.PUBLISH, Topic: "t", Payload: fmt.Sprintf("m%d", len(plan.Ops))}})
		}
	}
	plan.Ops = append(plan.Ops, Op{Kind: "advance", Ms: 1000 * (1 + t.Draw("c37.tail", 6))})
	return plan
}

func checkC37(r *Result) []Violation {
	var out []Violation
	endVT := int64(0)
	for _, e := range r.H.Evs {
		if e.Kind == "teardown" {
			endVT = e.VT
		}
	}
	for _, c := range r.Ex.Conns {
		cp := connectPkt(c, r)
		if cp == nil || !verOK(c, r) {
			continue
		}
		ca := connack(c)
		if ca == nil || ca.P.ReasonCode != 0 {
			continue
		}
		K := int64(cp.KeepAlive)
		// times at which a complete client packet was handed to the broker
		// (a raw operation may carry a packet and the first bytes of the next one: the client's byte stream is
		// reassembled and every packet is stamped with the delivery of its last byte)
		var times []int64
		var stream []byte
		off := map[int]int{}
		for _, e := range r.H.Evs {
			if e.Kind != "in" || e.Conn != c.Idx {
				continue
			}
			if e.Op < 0 || e.Op >= len(r.Plan.Ops) || r.Plan.Ops[e.Op].Raw == nil {
				if e.Last {
					times = append(times, e.VT)
				}
				continue
			}
			raw := r.Plan.Ops[e.Op].Raw
			from := off[e.Op]
			to := from + int(e.N)
			if to > len(raw) {
				to = len(raw)
			}
			off[e.Op] = to
			stream = append(stream, raw[from:to]...)
			for {
				_, _, total, err := refcodec.Frame(stream)
				if err != nil {
					break
				}
				times = append(times, e.VT)
				stream = stream[total:]
			}
		}
		closeVT := int64(-1)
		for _, e := range r.H.Evs {
			if e.Kind == "teardown" {
				break
			}
			if e.Kind == "close" && e.Conn == c.Idx && e.Str == "broker" {
				closeVT = e.VT
				break
			}
		}
		peerVT := int64(-1)
		for _, e := range r.H.Evs {
			if e.Kind == "close" && e.Conn == c.Idx && e.Str != "broker" && e.Str != "teardown" {
				peerVT = e.VT
			}
		}
		if peerVT >= 0 {
			continue
		}
		// last packet before the close (or before the end of the run)
		limit := closeVT
		if limit < 0 {
			limit = endVT
		}
		last := int64(-1)
		for _, tm := range times {
			if tm <= limit {
				last = tm
			}
		}
		if last < 0 {
			continue
		}
		kf := fmt.Sprint(K)
		if K > 3 {
			kf = ">3"
		}
		if K == 0 {
			if closeVT >= 0 && closeVT < endVT {
				out = append(out, viol("C37", "closed-with-keepalive-0", fmt.Sprintf("conn %d: keepalive 0 but the broker closed the connection at t=%dms", c.Idx, closeVT), -1))
			}
			continue
		}
		early := last + 1500*K - 250*K
		late := last + 1500*K + 250*K
		if closeVT >= 0 && closeVT < early {
			out = append(out, viol("C37", "closed-too-early", fmt.Sprintf("conn %d: keepalive %d s, last packet at t=%dms, closed at t=%dms (%d ms idle, 1.5 x K = %d ms)", c.Idx, K, last, closeVT, closeVT-last, 1500*K), -1, "k", kf))
		}
		// packets that arrived after the last one but found the connection closed count as "kept arriving"
		for _, tm := range times {
			if tm > last && tm-last <= 1500*K-250*K && closeVT >= 0 && closeVT <= tm {
				out = append(out, viol("C37", "closed-too-early", fmt.Sprintf("conn %d: keepalive %d s: packet at t=%dms only %d ms after the previous one, but the connection was already closed at t=%dms", c.Idx, K, tm, tm-last, closeVT), -1, "k", kf))
			}
		}
		if endVT >= late && (closeVT < 0 || closeVT > late) {
			out = append(out, viol("C37", "not-closed-when-idle", fmt.Sprintf("conn %d: keepalive %d s, last packet at t=%dms, still open at t=%dms (must be closed by %dms)", c.Idx, K, last, minI64(endVT, maxI64(closeVT, late)), late), -1, "k", kf))
		}
	}
	return out
}

func minI64(a, b int64) int64 {
	if a < b {
		return a
	}
	return b
}
func maxI64(a, b int64) int64 {
	if a > b {
		return a
	}
	return b
}

func relevantC37(r *Result) (bool, []string) {
	var probes []string
	for _, c := range r.Ex.Conns {
		if cp := connectPkt(c, r); cp != nil {
			probes = append(probes, fmt.Sprintf("keepalive-%d", cp.KeepAlive))
		}
		if brokerCloseSeq(r.H, c.Idx) >= 0 {
			probes = append(probes, "closed-by-broker")
		}
	}
	return r.Stats.SimMs > 0, probes
}

// ---------------------------------------------------------------------------------------------------
// C15: session expiry

type c15State struct {
	exists     bool
	persistent bool
	eff        uint32
	discVT     int64
	live       *Conn
	ambiguous  bool
	discarded  bool
	raised     bool
}

func genC15(t *Tape) *Plan {
	k := DefaultKnobs()
	k.Slots = 3
	k.IDs = []string{"a", "b", "a"}
	k.Topics = []string{"t", "u"}
	k.Filters = []string{"t", "#", "u"}
	k.Ops = 16
	k.WConnect, k.WSub, k.WUnsub, k.WPub, k.WDisc, k.WDrop, k.WAdv = 5, 3, 0, 4, 3, 2, 5
	k.CleanPct = 25
	k.V5Pct = 65
	k.ExpiryChoices = []uint32{0xFFFFFFFF, 0, 1, 2, 3, 10}
	k.AdvMs = []int{500, 1000, 1500, 2500, 4000}
	k.QosW = [3]int{2, 3, 1}
	k.SubQosW = [3]int{1, 3, 1}
	g := NewGen(t, &k, "C15")
	cfg := &g.plan.Cfg
	GenSchedConfig(t, cfg)
	cfg.MaxSessExpiry = []uint32{0, 2, 5}[t.Draw("c15.maxsess", 3)]
	n := 6 + t.Draw("c15.len", 11)
	for len(g.plan.Ops) < n {
		if t.Draw("c15.special", 6) == 0 {
			// DISCONNECT carrying a session expiry interval (possibly raising 0 to non-zero)
			slot := t.Draw("op.slot", k.Slots)
			if g.slots[slot].connected && g.slots[slot].ver == 5 {
				p := &refcodec.Packet{Type: refcodec.DISCONNECT, Props: refcodec.Props{{ID: refcodec.PSessionExpiry, Int: uint32([]int{0, 2, 30}[t.Draw("c15.dexp", 3)])}}}
				g.add(Op{Kind: "disconnect", Slot: slot, Pkt: p})
				g.plan.Ops = append(g.plan.Ops, Op{Kind: "close", Slot: slot})
				g.slots[slot].connected = false
				continue
			}
		}
		g.Step()
	}
	g.plan.Ops = append(g.plan.Ops, Op{Kind: "advance", Ms: 1000})
	g.plan.Ops[len(g.plan.Ops)-1].Concurrent = false
	return g.plan
}

// oldTeardown says, for a session found discarded by connection cur, when the handler of the connection *before*
// the session's last one ran its disconnect hook (the step right before the end-of-connection cleanup that may
// delete registry entries by client id): before or after the last connection's CONNACK was written. The known
// takeover race needs that cleanup decision to be taken before the successor marks the old client as taken over,
// hence before the successor's CONNACK; a cleanup decided later that still removes the successor is something else.
func oldTeardown(r *Result, id string, cur *Conn) string {
	var cs []*Conn
	for _, x := range r.Ex.Conns {
		if x.CID == id && x.openSeq < cur.openSeq {
			if ca := connack(x); ca != nil && ca.P.ReasonCode == 0 {
				cs = append(cs, x)
			}
		}
	}
	if len(cs) < 2 {
		return "none"
	}
	b, a := cs[len(cs)-1], cs[len(cs)-2]
	hd := -1
	for _, e := range r.H.Evs {
		if e.Kind == "hook" && e.Str == "disconnect" && e.Conn == a.Idx {
			hd = e.Seq
		}
	}
	switch {
	case hd < 0:
		return "none"
	case hd > connack(b).Seq:
		return "after-successor-connack"
	}
	return "before-successor-connack"
}

func checkC15(r *Result) []Violation {
	var out []Violation
	S := map[string]*c15State{}
	m := NewModel(r)
	ws := BuildWindows(r)
	effOf := func(p *refcodec.Packet) (uint32, bool) {
		max := r.Plan.Cfg.MaxSessExpiry
		if max == 0 {
			max = 0xFFFFFFFF
		}
		if p.ProtoVer == 5 {
			if e, ok := p.Props.Get(refcodec.PSessionExpiry); ok {
				v := e.Int
				if v > max {
					v = max
				}
				return v, v > 0
			}
			return 0, false
		}
		return max, !p.CleanStart
	}
	for wi := range ws {
		w := &ws[wi]
		touch := map[string]int{}
		nconn := map[string]int{}
		for _, oi := range w.Ops {
			op := &r.Plan.Ops[oi]
			if op.Kind == "connect" && op.Pkt != nil {
				touch[op.Pkt.ClientID]++
				nconn[op.Pkt.ClientID]++
			} else if c := m.connOfOp(oi); c != nil && (op.Kind == "disconnect" || op.Kind == "drop" || op.Kind == "close") {
				touch[c.CID]++
			}
		}
		for _, e := range r.H.Evs {
			if e.Seq < w.StartSeq || e.Seq > w.EndSeq {
				continue
			}
			if e.Kind == "hook" && e.Str == "client_expired" {
				st := S[e.Str2]
				if st == nil {
					continue
				}
				if st.live != nil && touch[e.Str2] == 0 {
					out = append(out, viol("C15", "connected-session-expired", fmt.Sprintf("session %q was expired by housekeeping at t=%dms while connection %d is established", e.Str2, e.VT, st.live.Idx), e.Seq))
				} else if st.live == nil && st.persistent && !st.ambiguous && e.VT-st.discVT < int64(st.eff)*1000 {
					out = append(out, viol("C15", "expired-too-early", fmt.Sprintf("session %q (effective expiry %d s) disconnected at t=%dms and was discarded at t=%dms", e.Str2, st.eff, st.discVT, e.VT), e.Seq, "eff", fmt.Sprint(st.eff)))
				}
				if st.live == nil {
					st.exists = false
					st.discarded = true
				}
			}
		}
		for _, oi := range w.Ops {
			op := &r.Plan.Ops[oi]
			if op.Kind != "connect" || op.Pkt == nil || op.Pkt.Type != refcodec.CONNECT || op.Pkt.ClientID == "" {
				continue
			}
			var c *Conn
			for _, x := range r.Ex.Conns {
				if x.ConnectOp == oi {
					c = x
				}
			}
			if c == nil {
				continue
			}
			ca := connack(c)
			if ca == nil || ca.P.ReasonCode != 0 {
				continue
			}
			id := op.Pkt.ClientID
			st := S[id]
			if st == nil {
				st = &c15State{}
				S[id] = st
			}
			overlapping := touch[id] > 1
			if !overlapping && !st.ambiguous && w.Complete && !op.Pkt.CleanStart && st.live == nil {
				elapsed := ca.VT - st.discVT
				switch {
				case st.exists && st.persistent && elapsed < int64(st.eff)*1000:
					if !ca.P.SessionPresent {
						out = append(out, viol("C15", "discarded-before-expiry", fmt.Sprintf("conn %d: session %q (effective expiry %d s) disconnected at t=%dms; reconnect at t=%dms found it discarded", c.Idx, id, st.eff, st.discVT, ca.VT), ca.Seq,
							"eff", fmt.Sprint(st.eff), "ver", verClass(c.Ver), "old_teardown", oldTeardown(r, id, c)))
					}
				case !st.exists:
					if ca.P.SessionPresent {
						out = append(out, viol("C15", "ended-session-still-present", fmt.Sprintf("conn %d: session %q had ended (expiry 0 / clean session / discarded) but the reconnect at t=%dms found it present", c.Idx, id, ca.VT), ca.Seq, "ver", verClass(c.Ver)))
					}
				}
			}
			_ = nconn
			st.ambiguous = overlapping
			st.exists = true
			st.discarded = false
			st.eff, st.persistent = effOf(op.Pkt)
			st.live = c
		}
		for _, oi := range w.Ops {
			op := &r.Plan.Ops[oi]
			if op.Kind == "disconnect" && op.Pkt != nil {
				if c := m.connOfOp(oi); c != nil && c.Ver == 5 {
					if st := S[c.CID]; st != nil && st.live == c {
						if p, ok := op.Pkt.Props.Get(refcodec.PSessionExpiry); ok {
							if p.Int > 0 && !st.persistent {
								// raising 0 to non-zero is a protocol error: the session must not become persistent
								st.raised = true
							} else {
								v := p.Int
								if max := r.Plan.Cfg.MaxSessExpiry; max != 0 && v > max {
									v = max
								}
								st.eff, st.persistent = v, v > 0
							}
						}
					}
				}
			}
		}
		for _, e := range r.H.Evs {
			if e.Seq >= w.StartSeq && e.Seq <= w.EndSeq && e.Kind == "close" && e.Conn >= 0 {
				c := r.Ex.Conns[e.Conn]
				if st := S[c.CID]; st != nil && st.live == c {
					st.live = nil
					st.discVT = e.VT
					if !st.persistent {
						st.exists = false
					}
				}
			}
		}
		m.Apply(w)
	}
	// once a session is discarded nothing of it survives: a later connection with the same id receives no
	// message because of the old subscriptions
	for _, v := range checkDelivery(r, "C03") {
		if v.Class == "unexpected-delivery" && strings.HasPrefix(v.Features["session"], "fresh") {
			v.Property, v.Class = "C15", "state-survived-discard"
			out = append(out, v)
		}
	}
	return out
}

func relevantC15(r *Result) (bool, []string) {
	var probes []string
	n := 0
	for _, e := range r.H.Evs {
		if e.Kind == "hook" && e.Str == "client_expired" {
			probes = append(probes, "client-expired")
		}
	}
	for _, c := range r.Ex.Conns {
		if ca := connack(c); ca != nil && ca.P.ReasonCode == 0 {
			n++
			if ca.P.SessionPresent {
				probes = append(probes, "session-present")
			}
		}
	}
	return n >= 2 && r.Stats.SimMs > 0, probes
}

func init() {
	register(&Profile{Name: "C37", Gen: genC37, Check: checkC37, Relevant: relevantC37})
	register(&Profile{Name: "C15", Gen: genC15, Check: checkC15, Relevant: relevantC15})
}
