package harness

import (
	"bytes"
	"errors"
	"fmt"

	mqtt "github.com/mochi-mqtt/server/v2"
	"github.com/mochi-mqtt/server/v2/packets"
	"github.com/mochi-mqtt/server/v2/system"
)

// ReadPkt is a normalised view of a packets.Packet as the broker decoded it (OnPacketRead).
type ReadPkt struct {
	Type     byte     `json:"type"`
	Qos      byte     `json:"qos,omitempty"`
	Dup      bool     `json:"dup,omitempty"`
	Retain   bool     `json:"retain,omitempty"`
	PID      uint16   `json:"pid,omitempty"`
	Topic    string   `json:"topic,omitempty"`
	Payload  string   `json:"payload,omitempty"`
	RC       byte     `json:"rc,omitempty"`
	Filters  []string `json:"filters,omitempty"`
	Opts     []byte   `json:"opts,omitempty"`
	SubID    int      `json:"subid,omitempty"`
	SessExp  int64    `json:"sessExp"` // -1 absent
	Reason   string   `json:"reason,omitempty"`
	User     []string `json:"user,omitempty"`
	Alias    uint16   `json:"alias,omitempty"`
	MsgExp   int64    `json:"msgExp"` // -1 absent
	ContentType string `json:"ct,omitempty"`
	RespTopic   string `json:"rt,omitempty"`
	Corr        string `json:"corr,omitempty"`
	AuthMethod  string `json:"am,omitempty"`
	AuthData    string `json:"ad,omitempty"`
	PayloadFormat int  `json:"pf"` // -1 absent
}

func normRead(pk packets.Packet) *ReadPkt {
	r := &ReadPkt{Type: pk.FixedHeader.Type, Qos: pk.FixedHeader.Qos, Dup: pk.FixedHeader.Dup, Retain: pk.FixedHeader.Retain,
		PID: pk.PacketID, Topic: pk.TopicName, Payload: string(pk.Payload), RC: pk.ReasonCode, SessExp: -1, MsgExp: -1, PayloadFormat: -1}
	for _, f := range pk.Filters {
		r.Filters = append(r.Filters, f.Filter)
		var o byte = f.Qos
		if f.NoLocal {
			o |= 4
		}
		if f.RetainAsPublished {
			o |= 8
		}
		o |= f.RetainHandling << 4
		r.Opts = append(r.Opts, o)
		if f.Identifier != 0 {
			r.SubID = f.Identifier
		}
	}
	p := pk.Properties
	if p.SessionExpiryIntervalFlag {
		r.SessExp = int64(p.SessionExpiryInterval)
	}
	if p.MessageExpiryInterval != 0 {
		r.MsgExp = int64(p.MessageExpiryInterval)
	}
	if p.PayloadFormatFlag {
		r.PayloadFormat = int(p.PayloadFormat)
	}
	r.Reason = p.ReasonString
	for _, u := range p.User {
		r.User = append(r.User, u.Key+"="+u.Val)
	}
	if p.TopicAliasFlag {
		r.Alias = p.TopicAlias
	}
	r.ContentType = p.ContentType
	r.RespTopic = p.ResponseTopic
	r.Corr = string(p.CorrelationData)
	r.AuthMethod = p.AuthenticationMethod
	r.AuthData = string(p.AuthenticationData)
	if len(p.SubscriptionIdentifier) > 0 && r.SubID == 0 {
		r.SubID = p.SubscriptionIdentifier[0]
	}
	return r
}

// Recorder is a real mqtt.Hook that appends observation events to the history.
type Recorder struct {
	mqtt.HookBase
	ex *Ex
}

func (r *Recorder) ID() string { return "verif-recorder" }

func (r *Recorder) Provides(b byte) bool {
	return bytes.Contains([]byte{mqtt.OnPacketRead, mqtt.OnPacketSent, mqtt.OnPublishDropped, mqtt.OnQosDropped, mqtt.OnPacketIDExhausted,
		mqtt.OnWillSent, mqtt.OnClientExpired, mqtt.OnRetainedExpired, mqtt.OnDisconnect, mqtt.OnSessionEstablished, mqtt.OnQosPublish,
		mqtt.OnQosComplete, mqtt.OnRetainMessage, mqtt.OnSubscribed, mqtt.OnUnsubscribed, mqtt.OnPublished, mqtt.OnSysInfoTick, mqtt.OnRetainPublished}, []byte{b})
}

func connIdx(cl *mqtt.Client) int {
	if cl == nil || cl.Net.Conn == nil {
		return -1
	}
	if c, ok := cl.Net.Conn.(*Conn); ok {
		return c.Idx
	}
	// wrapped connections (the real websocket wsConn embeds the simulated conn): identified by remote address
	var idx int
	if n, _ := fmt.Sscanf(cl.Net.Conn.RemoteAddr().String(), "simclient:%d", &idx); n == 1 {
		return idx
	}
	return -1
}

func (r *Recorder) hook(name string, cl *mqtt.Client, e *Ev) {
	e.Kind = "hook"
	e.Str = name
	e.Conn = connIdx(cl)
	if cl != nil && e.Str2 == "" {
		e.Str2 = cl.ID
	}
	r.ex.H.add(e)
}

func (r *Recorder) OnPacketRead(cl *mqtt.Client, pk packets.Packet) (packets.Packet, error) {
	r.hook("read", cl, &Ev{Read: normRead(pk)})
	return pk, nil
}

func (r *Recorder) OnPacketSent(cl *mqtt.Client, pk packets.Packet, b []byte) {
	if c, ok := cl.Net.Conn.(*Conn); ok {
		c.mu.Lock()
		c.hookSent = append(c.hookSent, b...)
		c.mu.Unlock()
	}
	r.hook("sent", cl, &Ev{N: int64(len(b)), N2: int64(pk.FixedHeader.Type)})
}

func payloadID(b []byte) string {
	for i, c := range b {
		if c == '.' {
			return string(b[:i])
		}
	}
	return string(b)
}

func (r *Recorder) OnPublishDropped(cl *mqtt.Client, pk packets.Packet) {
	r.hook("publish_dropped", cl, &Ev{Str2: cl.ID + "|" + payloadID(pk.Payload)})
}
func (r *Recorder) OnQosDropped(cl *mqtt.Client, pk packets.Packet) {
	r.hook("qos_dropped", cl, &Ev{N: int64(pk.PacketID), Str2: cl.ID + "|" + payloadID(pk.Payload)})
}
func (r *Recorder) OnPacketIDExhausted(cl *mqtt.Client, pk packets.Packet) {
	r.hook("pid_exhausted", cl, &Ev{Str2: cl.ID + "|" + payloadID(pk.Payload)})
}
func (r *Recorder) OnWillSent(cl *mqtt.Client, pk packets.Packet) {
	r.hook("will_sent", cl, &Ev{Str2: cl.ID + "|" + payloadID(pk.Payload)})
}
func (r *Recorder) OnClientExpired(cl *mqtt.Client) { r.hook("client_expired", cl, &Ev{}) }
func (r *Recorder) OnRetainedExpired(filter string) {
	r.ex.H.add(&Ev{Kind: "hook", Str: "retained_expired", Str2: filter, Conn: -1})
}
func (r *Recorder) OnDisconnect(cl *mqtt.Client, err error, expire bool) {
	e := &Ev{}
	if expire {
		e.N = 1
	}
	r.hook("disconnect", cl, e)
}
func (r *Recorder) OnSessionEstablished(cl *mqtt.Client, pk packets.Packet) {
	r.hook("established", cl, &Ev{})
}
func (r *Recorder) OnQosPublish(cl *mqtt.Client, pk packets.Packet, sent int64, resends int) {
	r.hook("qos_publish", cl, &Ev{N: int64(pk.PacketID), N2: int64(pk.FixedHeader.Type), Str2: cl.ID + "|" + payloadID(pk.Payload)})
}
func (r *Recorder) OnQosComplete(cl *mqtt.Client, pk packets.Packet) {
	r.hook("qos_complete", cl, &Ev{N: int64(pk.PacketID), N2: int64(pk.FixedHeader.Type)})
}
func (r *Recorder) OnRetainMessage(cl *mqtt.Client, pk packets.Packet, n int64) {
	r.hook("retain", cl, &Ev{N: n, Str2: pk.TopicName + "|" + payloadID(pk.Payload)})
}
func (r *Recorder) OnRetainPublished(cl *mqtt.Client, pk packets.Packet) {
	r.hook("retain_published", cl, &Ev{Str2: cl.ID + "|" + pk.TopicName})
}
func (r *Recorder) OnSubscribed(cl *mqtt.Client, pk packets.Packet, rc []byte) {
	r.hook("subscribed", cl, &Ev{N: int64(len(rc))})
}
func (r *Recorder) OnUnsubscribed(cl *mqtt.Client, pk packets.Packet) {
	r.hook("unsubscribed", cl, &Ev{N: int64(len(pk.Filters))})
}
func (r *Recorder) OnPublished(cl *mqtt.Client, pk packets.Packet) {
	r.hook("published", cl, &Ev{Str2: cl.ID + "|" + payloadID(pk.Payload)})
}
func (r *Recorder) OnSysInfoTick(i *system.Info) {
	r.ex.H.add(&Ev{Kind: "hook", Str: "sys_tick", Conn: -1})
}

// PermHook implements authentication and access control as a pure function of the run's plan.
type PermHook struct {
	mqtt.HookBase
	cfg *Config
}

func (h *PermHook) ID() string { return "verif-perm" }
func (h *PermHook) Provides(b byte) bool {
	return b == mqtt.OnConnectAuthenticate || b == mqtt.OnACLCheck
}
func (h *PermHook) OnConnectAuthenticate(cl *mqtt.Client, pk packets.Packet) bool {
	for _, d := range h.cfg.DenyConnect {
		if d == cl.ID {
			return false
		}
	}
	return true
}
func (h *PermHook) OnACLCheck(cl *mqtt.Client, topic string, write bool) bool {
	return !denied(h.cfg, cl.ID, topic, write)
}

func denied(cfg *Config, client, topic string, write bool) bool {
	for _, d := range cfg.Deny {
		if d.Write == write && d.Topic == topic && (d.Client == "" || d.Client == client) {
			return true
		}
	}
	return false
}

// ProgHook is a programmable hook for hook-chain histories (C19).
type ProgHook struct {
	mqtt.HookBase
	ex   *Ex
	idx  int
	spec HookSpec
}

func (h *ProgHook) ID() string { return "verif-prog" + string(rune('0'+h.idx)) }
func (h *ProgHook) Provides(b byte) bool {
	switch b {
	case mqtt.OnPublish:
		return h.spec.OnPublish != ""
	case mqtt.OnPacketRead:
		return h.spec.OnRead != ""
	case mqtt.OnSubscribe:
		return h.spec.OnSubscribe != ""
	case mqtt.OnConnectAuthenticate:
		return h.spec.Auth != ""
	case mqtt.OnACLCheck:
		return h.spec.ACL != ""
	}
	return false
}

var errHookGeneric = errors.New("verif: generic hook error")

func (h *ProgHook) OnPublish(cl *mqtt.Client, pk packets.Packet) (packets.Packet, error) {
	h.ex.H.add(&Ev{Kind: "hook", Str: "prog_publish", Conn: connIdx(cl), N: int64(h.idx), Str2: string(pk.Payload)})
	if h.spec.Topic != "" && h.spec.Topic != pk.TopicName {
		return pk, nil
	}
	switch h.spec.OnPublish {
	case "modify":
		pk.Payload = append(append([]byte{}, pk.Payload...), byte('~'), byte('0'+h.idx))
		return pk, nil
	case "reject":
		return pk, packets.ErrRejectPacket
	case "ignore":
		return pk, packets.CodeSuccessIgnore
	case "error":
		return pk, errHookGeneric
	case "errcode":
		return pk, packets.ErrNotAuthorized
	}
	return pk, nil
}

func (h *ProgHook) OnPacketRead(cl *mqtt.Client, pk packets.Packet) (packets.Packet, error) {
	if pk.FixedHeader.Type != packets.Publish {
		return pk, nil
	}
	h.ex.H.add(&Ev{Kind: "hook", Str: "prog_read", Conn: connIdx(cl), N: int64(h.idx), Str2: string(pk.Payload)})
	if h.spec.Topic != "" && h.spec.Topic != pk.TopicName {
		return pk, nil
	}
	switch h.spec.OnRead {
	case "modify":
		pk.Payload = append(append([]byte{}, pk.Payload...), byte('^'), byte('0'+h.idx))
		return pk, nil
	case "reject":
		return pk, packets.ErrRejectPacket
	case "error":
		return pk, errHookGeneric
	}
	return pk, nil
}

func (h *ProgHook) OnSubscribe(cl *mqtt.Client, pk packets.Packet) packets.Packet {
	h.ex.H.add(&Ev{Kind: "hook", Str: "prog_subscribe", Conn: connIdx(cl), N: int64(h.idx)})
	return pk
}

func (h *ProgHook) OnConnectAuthenticate(cl *mqtt.Client, pk packets.Packet) bool {
	h.ex.H.add(&Ev{Kind: "hook", Str: "prog_auth", Conn: connIdx(cl), N: int64(h.idx)})
	return h.spec.Auth == "allow"
}

func (h *ProgHook) OnACLCheck(cl *mqtt.Client, topic string, write bool) bool {
	return h.spec.ACL == "allow"
}
