// Package refmatch is the reference for MQTT topic matching (spec 4.7) and filter / topic-name validity
// (4.7.1, 4.7.3, 4.8.2), written independently of /repo/topics.go. It is the oracle for C01, C02, C30 and a
// component of the broker model.
package refmatch

import "strings"

// SplitShare splits "$share/<group>/<filter>" into (group, filter, true); otherwise ("", f, false).
// The prefix is compared case-sensitively as the specification writes it.
func SplitShare(f string) (group, inner string, shared bool) {
	if !strings.HasPrefix(f, "$share/") {
		return "", f, false
	}
	rest := f[len("$share/"):]
	i := strings.IndexByte(rest, '/')
	if i < 0 {
		return rest, "", true
	}
	return rest[:i], rest[i+1:], true
}

// Match reports whether a (non-shared) topic filter matches a topic name.
func Match(filter, topic string) bool {
	if filter == "" || topic == "" {
		return false
	}
	if topic[0] == '$' && (filter[0] == '+' || filter[0] == '#') {
		return false
	}
	fl := strings.Split(filter, "/")
	tl := strings.Split(topic, "/")
	for i, f := range fl {
		if f == "#" {
			return i == len(fl)-1 // matches parent (i == len(tl)) and any number of child levels
		}
		if i >= len(tl) {
			return false
		}
		if f == "+" {
			continue
		}
		if f != tl[i] {
			return false
		}
	}
	return len(fl) == len(tl)
}

// MatchSub matches a subscription filter that may be shared: shared subscriptions match on the filter that
// follows $share/<group>/.
func MatchSub(filter, topic string) bool {
	if _, inner, sh := SplitShare(filter); sh {
		return Match(inner, topic)
	}
	return Match(filter, topic)
}

func validLevels(f string) bool {
	levels := strings.Split(f, "/")
	for i, l := range levels {
		if strings.Contains(l, "#") {
			if l != "#" || i != len(levels)-1 {
				return false
			}
		}
		if strings.Contains(l, "+") && l != "+" {
			return false
		}
	}
	return true
}

// ValidFilter: non-empty, '#' only as the whole last level, '+' only as whole levels; a $share filter has a
// non-empty share name without wildcards followed by a non-empty filter.
func ValidFilter(f string) bool {
	if f == "" {
		return false
	}
	if f == "$share" || strings.HasPrefix(f, "$share/") {
		group, inner, _ := SplitShare(f)
		if f == "$share" {
			return false
		}
		if group == "" || strings.ContainsAny(group, "+#") {
			return false
		}
		if inner == "" {
			return false
		}
		return validLevels(inner)
	}
	return validLevels(f)
}

// ValidPublishTopic: accepted exactly when it contains no wildcard and does not start with "$SYS".
// (An empty topic is only meaningful together with a topic alias and is handled by the caller.)
func ValidPublishTopic(t string) bool {
	if strings.ContainsAny(t, "+#") {
		return false
	}
	if strings.HasPrefix(t, "$SYS") {
		return false
	}
	return true
}

// Kind classifies how a filter matches (or would have to match) a topic, for reports: exact, plus,
// hash-child, hash-parent (the '#' matches the parent level itself), with "plus+" prefixed when single-level
// wildcards are involved as well.
func Kind(filter, topic string) string {
	if _, inner, sh := SplitShare(filter); sh {
		return "shared:" + Kind(inner, topic)
	}
	fl := strings.Split(filter, "/")
	tl := strings.Split(topic, "/")
	plus := strings.Contains(filter, "+")
	k := "exact"
	if fl[len(fl)-1] == "#" {
		if len(tl) == len(fl)-1 {
			k = "hash-parent"
		} else {
			k = "hash-child"
		}
		if plus {
			k = "plus+" + k
		}
	} else if plus {
		k = "plus"
	}
	return k
}
