package harness

import (
	"crypto/sha256"
	"encoding/hex"
	"fmt"
	"hash"
	"sync"
	"time"

	"verifharness/refcodec"
)

// Ev is one history event. Seq is the global event sequence number; VT is virtual milliseconds since the
// start of the run.
type Ev struct {
	Seq  int              `json:"seq"`
	VT   int64            `json:"vt"`
	Kind string           `json:"kind"` // op, in, out, pkt, malformed, close, hook, quiesce, tick, fault, probe, api
	Conn int              `json:"conn"`
	Op   int              `json:"op"`
	Pkt  *refcodec.Packet `json:"pkt,omitempty"`
	Str  string           `json:"str,omitempty"`
	Str2 string           `json:"str2,omitempty"`
	N    int64            `json:"n,omitempty"`
	N2   int64            `json:"n2,omitempty"`
	Last bool             `json:"last,omitempty"`
	Read *ReadPkt         `json:"read,omitempty"`
	Probe *Probe          `json:"probe,omitempty"`
	hasOp bool
}

// History is the recorded execution.
type History struct {
	mu    sync.Mutex
	Evs   []*Ev
	start time.Time
	h     hash.Hash
}

func newHistory() *History {
	return &History{start: time.Now(), h: sha256.New()}
}

func (h *History) add(e *Ev) int {
	h.mu.Lock()
	defer h.mu.Unlock()
	e.Seq = len(h.Evs)
	e.VT = time.Since(h.start).Milliseconds()
	if !e.hasOp {
		e.Op = -1
	}
	h.Evs = append(h.Evs, e)
	// digest: everything that identifies the execution, nothing that reads a real clock
	fmt.Fprintf(h.h, "%d|%d|%s|%d|%d|%s|%s|%d|%d;", e.Seq, e.VT, e.Kind, e.Conn, e.Op, e.Str, e.Str2, e.N, e.N2)
	if e.Pkt != nil {
		fmt.Fprintf(h.h, "%s;", digestPkt(e.Pkt))
	}
	return e.Seq
}

func (h *History) note(s string) {
	h.mu.Lock()
	fmt.Fprintf(h.h, "%s;", s)
	h.mu.Unlock()
}

func (h *History) Len() int {
	h.mu.Lock()
	defer h.mu.Unlock()
	return len(h.Evs)
}

func (h *History) Digest() string {
	h.mu.Lock()
	defer h.mu.Unlock()
	return hex.EncodeToString(h.h.Sum(nil))[:16]
}

// digestPkt renders a packet for the digest; payloads of the two $SYS topics that expose real runtime
// numbers are excluded (they are replaced by constants under simulation anyway).
func digestPkt(p *refcodec.Packet) string {
	return p.String()
}
