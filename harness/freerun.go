package harness

import (
	"bytes"
	"fmt"
	"os"
	"regexp"
	"runtime"
	"runtime/pprof"
	"strings"
	"sync"
	"testing"
	"testing/synctest"
	"time"

	"verifharness/refcodec"
)

// ---------------------------------------------------------------------------------------------------
// C33: data races. Free-running mode: no scheduler is installed, so the instrumented broker uses its real
// locks and real goroutines run in parallel on all cores; the bubble still provides virtual time and
// quiescence. The harness binary is built with -race; any report whose stacks touch broker packages is a
// violation. Schedules are perturbed but not controlled (DESIGN.md §3, "C33 exception"): the replay file is
// the generated plan and reproduction is probable, not exact.

func genC33(t *Tape) *Plan {
	k := DefaultKnobs()
	k.Slots = 6
	k.IDs = []string{"a", "b", "c", "a", "b", "d"}
	k.Topics = []string{"t", "t/a", "u"}
	k.Filters = []string{"t", "t/#", "#", "u"}
	k.SharedFilters = []string{"$share/g/t"}
	k.Ops = 40
	k.WConnect, k.WSub, k.WUnsub, k.WPub, k.WDisc, k.WDrop, k.WPing = 5, 5, 2, 12, 1, 2, 1
	k.V5Pct = 60
	k.CleanPct = 40
	k.WillPct = 40
	k.WillDelayChoices = []uint32{0, 1}
	k.ExpiryChoices = []uint32{0xFFFFFFFF, 0, 2, 60}
	k.RetainPct = 30
	k.QosW = [3]int{2, 3, 2}
	k.SubQosW = [3]int{1, 3, 2}
	k.RecvMaxChoices = []uint16{0, 1, 2}
	k.AliasMaxChoices = []uint16{0, 2}
	k.PropsPct = 30
	k.SubIDPct = 30
	g := NewGen(t, &k, "C33")
	cfg := &g.plan.Cfg
	cfg.SysInterval = 1
	cfg.TopicAliasMax = 4
	cfg.Inline = t.Draw("c33.inline", 2) == 1
	if cfg.Inline {
		k.WInlinePub, k.WInlineSub, k.WInlineUnsub = 3, 1, 1
	}
	cfg.MaxClients = []int64{0, 0, 4}[t.Draw("c33.maxclients", 3)]
	p := g.Run()
	return p
}

type freeConn struct {
	c      *Conn
	parsed int
	mu     sync.Mutex
}

var raceRe = regexp.MustCompile(`(?s)WARNING: DATA RACE.*?==================`)
var raceFuncRe = regexp.MustCompile(`github\.com/mochi-mqtt/server/v2(?:/[a-z/]+)?\.([A-Za-z0-9_\(\)\*\.]+)\(`)

// runFree executes the plan with one real goroutine per client slot.
func runFree(t *testing.T, plan *Plan, seed uint64) (res *Result) {
	ex := &Ex{t: t, Plan: plan, tape: NewTape(seed), slots: map[int]*Conn{}, faultSeen: map[string]bool{}}
	ex.Stats.Faults = map[string]int{}
	res = &Result{Plan: plan, Ex: ex}
	func() {
		defer func() {
			if r := recover(); r != nil {
				msg := fmt.Sprint(r)
				if strings.Contains(msg, "blocked goroutines remain") || strings.Contains(msg, "deadlock: main bubble goroutine has exited") {
					res.BubbleLeak = true
					return
				}
				panic(r)
			}
		}()
		synctest.Test(t, func(t *testing.T) {
			ex.H = newHistory()
			ex.start = time.Now()
			ex.buildServerOnly()
			_ = ex.Srv.Serve()
			synctest.Wait()
			est := ex.lst.establish
			var mu sync.Mutex
			bySlot := map[int][]int{}
			for i, op := range plan.Ops {
				bySlot[op.Slot] = append(bySlot[op.Slot], i)
			}
			var wg sync.WaitGroup
			rng := mix(seed)
			for slot, ops := range bySlot {
				slot, ops := slot, ops
				wg.Add(1)
				lrng := mix(rng + uint64(slot)*977)
				go func() {
					defer wg.Done()
					var cur *Conn
					var react func(c *Conn)
					react = func(c *Conn) {
						// acknowledge whatever the broker has written so far
						c.mu.Lock()
						out := append([]byte(nil), c.out[c.parsed:]...)
						c.mu.Unlock()
						used := 0
						for used < len(out) {
							first, body, total, err := refcodec.Frame(out[used:])
							if err != nil {
								break
							}
							used += total
							p, derr := refcodec.Decode(first, body, c.Ver)
							if derr != nil {
								continue
							}
							var ack *refcodec.Packet
							switch p.Type {
							case refcodec.PUBLISH:
								if p.Qos == 1 {
									ack = &refcodec.Packet{Type: refcodec.PUBACK, PacketID: p.PacketID}
								} else if p.Qos == 2 {
									ack = &refcodec.Packet{Type: refcodec.PUBREC, PacketID: p.PacketID}
								}
							case refcodec.PUBREL:
								ack = &refcodec.Packet{Type: refcodec.PUBCOMP, PacketID: p.PacketID}
							case refcodec.PUBREC:
								ack = &refcodec.Packet{Type: refcodec.PUBREL, PacketID: p.PacketID}
							}
							if ack != nil && !c.isClosed() {
								c.deliver(refcodec.Encode(ack, c.Ver, refcodec.EncOpts{}))
							}
						}
						c.mu.Lock()
						c.parsed += used
						c.mu.Unlock()
					}
					for _, i := range ops {
						op := &plan.Ops[i]
						lrng = mix(lrng)
						switch lrng % 4 {
						case 0:
							runtime.Gosched()
						case 1:
							time.Sleep(time.Duration(lrng%7) * time.Millisecond)
						}
						switch op.Kind {
						case "connect":
							if op.Pkt == nil {
								continue
							}
							mu.Lock()
							c := &Conn{ex: ex, Idx: len(ex.Conns), Slot: slot, notify: make(chan struct{}, 1), ConnectOp: i, closeSeq: -1, Ver: 4, CID: op.Pkt.ClientID}
							if op.Pkt.ProtoVer == 5 {
								c.Ver = 5
							} else if op.Pkt.ProtoVer == 3 {
								c.Ver = 3
							}
							ex.Conns = append(ex.Conns, c)
							mu.Unlock()
							cur = c
							go func() { _ = est("sim", c) }()
							c.deliver(refcodec.Encode(op.Pkt, op.Pkt.ProtoVer, op.Enc))
						case "subscribe", "unsubscribe", "publish", "ping", "disconnect", "packet":
							if cur == nil || cur.isClosed() || op.Pkt == nil {
								continue
							}
							react(cur)
							data := refcodec.Encode(op.Pkt, cur.Ver, op.Enc)
							if lrng%3 == 0 && len(data) > 2 {
								cut := 1 + int(lrng>>8)%(len(data)-1)
								cur.deliver(data[:cut])
								runtime.Gosched()
								cur.deliver(data[cut:])
							} else {
								cur.deliver(data)
							}
						case "drop", "close":
							if cur != nil {
								cur.peerClose("peer-drop")
							}
						case "inline_pub":
							if plan.Cfg.Inline && op.Pkt != nil {
								_ = ex.Srv.Publish(op.Pkt.Topic, []byte(op.Pkt.Payload), op.Pkt.Retain, op.Pkt.Qos)
							}
						case "inline_sub":
							if plan.Cfg.Inline {
								_ = ex.Srv.Subscribe(op.Str, op.N, func(cl *mqttClient, sub packetsSubscription, pk packetsPacket) {})
							}
						case "inline_unsub":
							if plan.Cfg.Inline {
								_ = ex.Srv.Unsubscribe(op.Str, op.N)
							}
						case "advance":
							time.Sleep(time.Duration(op.Ms) * time.Millisecond)
						}
					}
					if cur != nil {
						time.Sleep(5 * time.Millisecond)
						react(cur)
					}
				}()
			}
			// housekeeping runs concurrently: let virtual seconds pass while the clients work
			done := make(chan struct{})
			go func() { wg.Wait(); close(done) }()
			ticks := 0
		loop:
			for {
				select {
				case <-done:
					break loop
				default:
					time.Sleep(300 * time.Millisecond)
					ticks++
					if ticks > 200 {
						break loop
					}
				}
			}
			time.Sleep(2500 * time.Millisecond)
			synctest.Wait()
			// shutdown races with whatever is still connected
			go func() {
				for _, c := range ex.Conns {
					if lrng := mix(uint64(c.Idx) + seed); lrng%2 == 0 {
						c.peerClose("teardown")
					}
				}
			}()
			closed := make(chan struct{})
			go func() { _ = ex.Srv.Close(); close(closed) }()
			synctest.Wait()
			// Close may be waiting for handlers of connections it does not know (open C36 finding): end them
			for _, c := range ex.Conns {
				c.peerClose("teardown")
			}
			<-closed
			synctest.Wait()
			ex.Stats.SimMs = ex.vt()
		})
	}()
	res.H = ex.H
	res.Digest = shortHash(fmt.Sprint(seed))
	res.Stats = ex.Stats
	return res
}

func runC33(p *Profile, seed uint64, rf *ReplayFile) *RunOutcome {
	var plan *Plan
	if rf != nil {
		plan = rf.Plan
	} else {
		plan = genC33(NewTape(seed))
	}
	// race reports go to a per-process log file (GORACE=log_path=...), read back after each run
	logPrefix := os.Getenv("VERIF_RACE_LOG")
	before := readRaceLogs(logPrefix)
	tries := 1
	if rf != nil {
		tries = envInt("VERIF_RACE_RETRIES", 20)
	}
	o := &RunOutcome{}
	o.Stats.Faults = map[string]int{}
	for k := 0; k < tries; k++ {
		// a subtest isolates the run: the Go test framework fails (and Goexits) the test in which the race
		// detector fired, which must not end the worker loop
		var res *Result
		hang := time.AfterFunc(45*time.Second, func() {
			// a real deadlock of real locks (C32 findings exist) wedges the bubble: give up on this process
			fmt.Println("HANG free-running execution did not finish within 90 s of real time; worker exits")
			if d := os.Getenv("VERIF_OUT"); d != "" {
				if f, err := os.Create(fmt.Sprintf("%s/hang-%d.txt", d, os.Getpid())); err == nil {
					_ = pprof.Lookup("goroutine").WriteTo(f, 2)
					f.Close()
				}
			}
			if workerFlush != nil {
				workerFlush()
			}
			os.Exit(0)
		})
		unitT.Run("free", func(tt *testing.T) { res = runFree(tt, plan, seed+uint64(k)) })
		hang.Stop()
		if res == nil {
			res = &Result{Plan: plan, Ex: &Ex{}, H: newHistory()}
		}
		lastResult = res
		o.Stats.SimMs += res.Stats.SimMs
		o.Stats.Steps += len(plan.Ops)
		after := readRaceLogs(logPrefix)
		if len(after) > len(before) {
			newTxt := after[len(before):]
			for _, rep := range raceRe.FindAllString(newTxt, -1) {
				fns := raceFuncRe.FindAllStringSubmatch(rep, -1)
				var names []string
				seen := map[string]bool{}
				for _, m := range fns {
					if strings.Contains(m[0], "/verifsim.") || seen[m[1]] {
						continue
					}
					seen[m[1]] = true
					names = append(names, m[1])
					if len(names) == 2 {
						break
					}
				}
				if len(names) == 0 {
					o.Other = append(o.Other, viol("HARNESS", "race-in-harness", clipStr(rep, 600), -1))
					continue
				}
				o.Violations = append(o.Violations, viol("C33", "data-race", clipStr(rep, 2500), -1, "between", strings.Join(names, " <-> ")))
			}
			before = after
		}
		if len(o.Violations) > 0 {
			break
		}
	}
	o.Violations = dedup(o.Violations)
	o.Digest = shortHash(mustJSON(plan))
	o.Relevant = len(plan.Ops) > 5
	o.Probes = append(o.Probes, "free-running-parallel", fmt.Sprintf("gomaxprocs-%d", runtime.GOMAXPROCS(0)))
	o.Replay = &ReplayFile{V: 1, Property: "C33", Profile: "C33", Engine: "A-free", RunSeed: seed, Plan: plan, Digest: o.Digest}
	o.Sample = map[string]any{"ops": len(plan.Ops), "digest": o.Digest}
	return o
}

func readRaceLogs(prefix string) string {
	if prefix == "" {
		return ""
	}
	b, err := os.ReadFile(fmt.Sprintf("%s.%d", prefix, os.Getpid()))
	if err != nil {
		return ""
	}
	return string(bytes.ToValidUTF8(b, nil))
}

func init() {
	register(&Profile{Name: "C33", Engine: "A-free", Runner: runC33})
}
