package harness

import (
	"sort"
	"strings"

	"verifharness/refcodec"
	"verifharness/refmatch"
)

// The executable reference model of the broker's session state (DESIGN.md §5.3). It is advanced only by the
// generated operations and by what is visible on the wire (CONNACK, SUBACK codes, closes); it never reads
// broker internals. Oracles consume it as must / may / must-not constraints.

type MSub struct {
	Filter string
	Opts   byte // qos | nl<<2 | rap<<3 | rh<<4
	SubID  uint32
	Op     int
}

func (s MSub) Qos() byte   { return s.Opts & 3 }
func (s MSub) NoLocal() bool { return s.Opts&4 != 0 }
func (s MSub) RAP() bool   { return s.Opts&8 != 0 }

type MSess struct {
	ID        string
	Conn      *Conn // nil when offline
	Ver       byte
	Clean     bool
	Expiry    uint32 // effective session expiry in seconds (v5); for v3 persistent sessions: server maximum
	HasExpiry bool
	Subs      map[string]MSub
	DiscVT    int64 // virtual ms of the disconnect (offline sessions)
	Uncertain bool  // expiry may have struck: existence unknown until the next CONNACK
	// SubsUnknown: a SUBSCRIBE or UNSUBSCRIBE of this session reached the broker and was never answered (the
	// connection was lost first, e.g. behind a stalled write): the client cannot know whether it took effect, and
	// for a persistent session neither can the model for as long as the session lives.
	SubsUnknown bool
	Origin    string // how the current connection got the session: fresh | resumed | takeover | takeover-racing-teardown
	MaxPkt    uint32
	RecvMax   uint32
	AliasMax  uint32
}

type MRet struct {
	Topic   string
	Payload string
	Qos     byte
	Op      int
	Props   refcodec.Props
	VT      int64
	Expiry  uint32 // effective message expiry (0 none)
	FromVer byte
}

type Model struct {
	r        *Result
	Cfg      *Config
	Sess     map[string]*MSess
	Retained map[string]*MRet
	AmbigRetained map[string]bool // topics whose latest retained value is not determined (overlapping retained publishes)
	ConnSess map[int]string // conn idx -> session id (established connections)
	// Late: connections on which a SUBSCRIBE / UNSUBSCRIBE was answered only after the quiescent point of its own
	// window (the client sent it before its CONNACK, or the broker was blocked behind a stalled write). The model
	// applies a request in the window it is issued in; for such a connection it does not know the subscription set
	// at every instant, and nothing is demanded of or denied to its session from then on.
	Late map[int]bool
}

// reachedBroker reports whether the last byte of operation oi's packet was delivered to the broker.
func (m *Model) reachedBroker(oi int) bool {
	for _, e := range m.r.H.Evs {
		if e.Kind == "in" && e.hasOp && e.Op == oi && e.Last {
			return true
		}
	}
	return false
}

// lateAck reports whether a packet of type typ with identifier pid was written to c after seq.
func lateAck(c *Conn, typ byte, pid uint16, seq int) bool {
	for _, pr := range c.Pkts {
		if pr.Seq > seq && pr.P.Type == typ && pr.P.PacketID == pid {
			return true
		}
	}
	return false
}

// Window is one operation group: the ops issued without waiting in between, and the quiescent point that
// followed.
type Window struct {
	Ops      []int
	StartSeq int
	EndSeq   int // seq of the quiesce event (or last event if the run was cut short)
	Complete bool
	EndVT    int64
	StartVT  int64
}

func BuildWindows(r *Result) []Window {
	var ws []Window
	var cur *Window
	for _, e := range r.H.Evs {
		switch e.Kind {
		case "op":
			if cur == nil {
				cur = &Window{StartSeq: e.Seq, StartVT: e.VT}
			}
			cur.Ops = append(cur.Ops, e.Op)
		case "quiesce":
			if cur != nil {
				cur.EndSeq, cur.EndVT, cur.Complete = e.Seq, e.VT, true
				ws = append(ws, *cur)
				cur = nil
			}
		case "teardown", "deadlock":
			if cur != nil {
				cur.EndSeq, cur.EndVT = e.Seq, e.VT
				ws = append(ws, *cur)
				cur = nil
			}
		}
	}
	if cur != nil {
		cur.EndSeq = r.H.Len() - 1
		ws = append(ws, *cur)
	}
	return ws
}

func NewModel(r *Result) *Model {
	return &Model{r: r, Cfg: &r.Plan.Cfg, Sess: map[string]*MSess{}, Retained: map[string]*MRet{}, AmbigRetained: map[string]bool{}, ConnSess: map[int]string{}, Late: map[int]bool{}}
}

// connack returns the CONNACK the broker wrote on a connection (nil if none).
func connack(c *Conn) *PktRec {
	for _, pr := range c.Pkts {
		if pr.P.Type == refcodec.CONNACK {
			return pr
		}
	}
	return nil
}

func (m *Model) connOfOp(op int) *Conn {
	// the connection an op was issued on: the slot's connection whose connect op is the latest <= op
	o := m.r.Plan.Ops[op]
	var best *Conn
	for _, c := range m.r.Ex.Conns {
		if c.Slot == o.Slot && c.ConnectOp <= op {
			if best == nil || c.ConnectOp > best.ConnectOp {
				best = c
			}
		}
	}
	return best
}

// effExpiry computes the effective session expiry of a connection request.
func (m *Model) effExpiry(p *refcodec.Packet) (uint32, bool) {
	max := m.Cfg.MaxSessExpiry
	if max == 0 {
		max = 0xFFFFFFFF
	}
	if p.ProtoVer == 5 {
		if e, ok := p.Props.Get(refcodec.PSessionExpiry); ok {
			v := e.Int
			if v > max {
				v = max
			}
			return v, true
		}
		return 0, false
	}
	if p.CleanStart {
		return 0, false
	}
	return max, false
}

// sessionEnded decides whether a session survives its disconnect.
func persistent(s *MSess) bool {
	if s.Ver == 5 {
		return s.Expiry > 0
	}
	return !s.Clean
}

// responseFor finds the SUBACK/UNSUBACK answering op on conn within a window.
func (m *Model) ackFor(c *Conn, w *Window, typ byte, pid uint16) *PktRec {
	for _, pr := range c.Pkts {
		if pr.Seq >= w.StartSeq && pr.Seq <= w.EndSeq && pr.P.Type == typ && pr.P.PacketID == pid {
			return pr
		}
	}
	return nil
}

func closedIn(r *Result, c *Conn, from, to int) (bool, string) {
	for _, e := range r.H.Evs {
		if e.Seq < from || e.Seq > to {
			continue
		}
		if e.Kind == "close" && e.Conn == c.Idx {
			return true, e.Str
		}
	}
	return false, ""
}

func (m *Model) offline(s *MSess, vt int64) {
	s.Conn = nil
	s.DiscVT = vt
	if !persistent(s) {
		delete(m.Sess, s.ID)
	}
}

// Apply advances the model over one window using the operations and the observed acknowledgements.
func (m *Model) Apply(w *Window) {
	r := m.r
	for _, oi := range w.Ops {
		op := &r.Plan.Ops[oi]
		switch op.Kind {
		case "connect":
			var c *Conn
			for _, x := range r.Ex.Conns {
				if x.ConnectOp == oi {
					c = x
				}
			}
			if c == nil || op.Pkt == nil || op.Pkt.Type != refcodec.CONNECT {
				continue
			}
			ca := connack(c)
			if ca == nil || ca.P.ReasonCode != 0 {
				continue
			}
			id := op.Pkt.ClientID
			if id == "" {
				if p, ok := ca.P.Props.Get(refcodec.PAssignedClientID); ok {
					id = p.Str
				} else {
					id = "?anon" + string(rune('0'+c.Idx%10))
				}
			}
			old := m.Sess[id]
			if old != nil && old.Conn != nil && old.Conn != c {
				delete(m.ConnSess, old.Conn.Idx)
			}
			// The observed Session Present bit is taken as the truth about whether the broker resumed the
			// session (whether that bit is right is C14's question, not the model's).
			var s *MSess
			if old == nil || op.Pkt.CleanStart || !ca.P.SessionPresent {
				s = &MSess{ID: id, Subs: map[string]MSub{}, Origin: "fresh"}
				s.Uncertain = ca.P.SessionPresent // resumed something the model does not know
			} else {
				s = old
				s.Uncertain = false
				s.Origin = "resumed"
			}
			for _, o2 := range w.Ops {
				if op2 := &r.Plan.Ops[o2]; o2 != oi && op2.Kind == "connect" && op2.Pkt != nil && op2.Pkt.ClientID == op.Pkt.ClientID {
					s.Uncertain = true // two connections racing for one client id: which one owns the session is not determined
				}
			}
			if old != nil && old.Conn != nil && old.Conn != c {
				// the new connection displaced a live one: the old connection's handler tears down while (or
				// after) the new one is being established
				s.Origin += "-takeover"
				for _, e := range r.H.Evs {
					if e.Seq >= w.StartSeq && e.Seq <= w.EndSeq && e.Conn == old.Conn.Idx && (e.Kind == "close" && e.Str != "broker" ||
						e.Kind == "pkt" && e.Pkt != nil && e.Pkt.Type == refcodec.DISCONNECT && e.Pkt.ReasonCode != 0x8E && old.Conn.Ver == 5) {
						s.Origin += "-racing-own-teardown"
						break
					}
				}
			}
			s.Conn = c
			s.Ver = op.Pkt.ProtoVer
			s.Clean = op.Pkt.CleanStart
			s.Expiry, s.HasExpiry = m.effExpiry(op.Pkt)
			s.MaxPkt, s.RecvMax, s.AliasMax = 0, 0, 0
			if s.Ver == 5 {
				if p, ok := op.Pkt.Props.Get(refcodec.PMaximumPacketSize); ok {
					s.MaxPkt = p.Int
				}
				if p, ok := op.Pkt.Props.Get(refcodec.PReceiveMaximum); ok {
					s.RecvMax = p.Int
				}
				if p, ok := op.Pkt.Props.Get(refcodec.PTopicAliasMaximum); ok {
					s.AliasMax = p.Int
				}
			}
			m.Sess[id] = s
			m.ConnSess[c.Idx] = id
		case "subscribe":
			c := m.connOfOp(oi)
			if c == nil {
				continue
			}
			if op.Pkt != nil && m.ackFor(c, w, refcodec.SUBACK, op.Pkt.PacketID) == nil && lateAck(c, refcodec.SUBACK, op.Pkt.PacketID, w.EndSeq) {
				m.Late[c.Idx] = true
			}
			s := m.Sess[m.ConnSess[c.Idx]]
			if s == nil || s.Conn != c {
				continue
			}
			ack := m.ackFor(c, w, refcodec.SUBACK, op.Pkt.PacketID)
			if ack == nil {
				if !lateAck(c, refcodec.SUBACK, op.Pkt.PacketID, w.EndSeq) && m.reachedBroker(oi) {
					s.SubsUnknown = true
				}
				continue
			}
			var subid uint32
			if p, ok := op.Pkt.Props.Get(refcodec.PSubscriptionID); ok {
				subid = p.Int
			}
			for i, f := range op.Pkt.Filters {
				if i < len(ack.P.ReasonCodes) && ack.P.ReasonCodes[i] < 0x80 {
					opts := f.Opts
					if s.Ver < 5 {
						opts &= 3
					}
					s.Subs[f.Filter] = MSub{Filter: f.Filter, Opts: opts, SubID: subid, Op: oi}
				}
			}
		case "unsubscribe":
			c := m.connOfOp(oi)
			if c == nil {
				continue
			}
			if op.Pkt != nil && m.ackFor(c, w, refcodec.UNSUBACK, op.Pkt.PacketID) == nil && lateAck(c, refcodec.UNSUBACK, op.Pkt.PacketID, w.EndSeq) {
				m.Late[c.Idx] = true
			}
			s := m.Sess[m.ConnSess[c.Idx]]
			if s == nil || s.Conn != c {
				continue
			}
			if m.ackFor(c, w, refcodec.UNSUBACK, op.Pkt.PacketID) == nil {
				if !lateAck(c, refcodec.UNSUBACK, op.Pkt.PacketID, w.EndSeq) && m.reachedBroker(oi) {
					s.SubsUnknown = true
				}
				continue
			}
			for _, f := range op.Pkt.Filters {
				delete(s.Subs, f.Filter)
			}
		case "disconnect":
			c := m.connOfOp(oi)
			if c == nil {
				continue
			}
			s := m.Sess[m.ConnSess[c.Idx]]
			if s == nil || s.Conn != c {
				continue
			}
			if s.Ver == 5 && op.Pkt != nil {
				if p, ok := op.Pkt.Props.Get(refcodec.PSessionExpiry); ok && !(p.Int > 0 && s.Expiry == 0) {
					v := p.Int
					if max := m.Cfg.MaxSessExpiry; max != 0 && v > max {
						v = max
					}
					s.Expiry, s.HasExpiry = v, true
				}
			}
		case "publish", "inline_pub":
			m.applyRetain(oi, op, w)
		case "advance":
			// offline sessions whose expiry may have elapsed become uncertain
			for _, s := range m.Sess {
				if s.Conn == nil && !s.Uncertain {
					if (w.EndVT/1000)-(s.DiscVT/1000) >= int64(s.Expiry) {
						s.Uncertain = true
					}
				}
			}
		}
	}
	// connections that ended inside the window
	for idx, id := range m.ConnSess {
		c := r.Ex.Conns[idx]
		if ok, _ := closedIn(r, c, w.StartSeq, w.EndSeq); ok {
			if s := m.Sess[id]; s != nil && s.Conn == c {
				m.offline(s, w.EndVT)
			}
			delete(m.ConnSess, idx)
		}
	}
}

// publishAccepted decides, from the plan and configuration alone, whether the broker is required to route
// a client publish (valid topic, write permission, publisher established). Hook-based rejection is judged
// by C19's own oracle.
func (m *Model) publisherOK(oi int) (*Conn, *MSess, bool) {
	op := &m.r.Plan.Ops[oi]
	if op.Kind == "inline_pub" {
		return nil, nil, m.Cfg.Inline
	}
	c := m.connOfOp(oi)
	if c == nil {
		return nil, nil, false
	}
	s := m.Sess[m.ConnSess[c.Idx]]
	if s == nil || s.Conn != c {
		return c, nil, false
	}
	p := op.Pkt
	if p == nil || p.Type != refcodec.PUBLISH {
		return c, s, false
	}
	if !refmatch.ValidPublishTopic(p.Topic) || p.Topic == "" {
		return c, s, false
	}
	if denied(m.Cfg, s.ID, p.Topic, true) && m.Cfg.Auth == "perm" {
		return c, s, false
	}
	return c, s, true
}

func (m *Model) applyRetain(oi int, op *Op, w *Window) {
	p := op.Pkt
	if p == nil || !p.Retain || m.Cfg.RetainOff {
		return
	}
	_, s, ok := m.publisherOK(oi)
	if !ok {
		return
	}
	if len(m.Cfg.Hooks) > 0 {
		return // hook stacks may rewrite/reject: C19 has its own retained model
	}
	// two retained publishes to one topic in the same window: "latest" is any of them
	n := 0
	for _, o2 := range w.Ops {
		op2 := &m.r.Plan.Ops[o2]
		if (op2.Kind == "publish" || op2.Kind == "inline_pub") && op2.Pkt != nil && op2.Pkt.Retain && op2.Pkt.Topic == p.Topic {
			n++
		}
	}
	if n > 1 {
		m.AmbigRetained[p.Topic] = true
	} else {
		delete(m.AmbigRetained, p.Topic)
	}
	if op.Kind == "publish" {
		// a publish whose bytes never reached the broker (its connection was closed first) has no effect; one whose
		// connection or session is touched by another operation of the window (takeover, drop) may or may not have
		delivered := false
		for _, e := range m.r.H.Evs {
			if e.Kind == "in" && e.Last && e.hasOp && e.Op == oi {
				delivered = true
			}
		}
		if !delivered {
			if n <= 1 {
				return
			}
		} else if pc := m.connOfOp(oi); pc != nil && len(w.Ops) > 1 {
			if t := m.Touched(w, oi); t.Conns[pc.Idx] || (s != nil && t.Sess[s.ID]) {
				m.AmbigRetained[p.Topic] = true
			}
		}
	}
	if p.Payload == "" {
		delete(m.Retained, p.Topic)
		return
	}
	q := p.Qos
	if q > m.Cfg.MaxQos {
		q = m.Cfg.MaxQos
	}
	ret := &MRet{Topic: p.Topic, Payload: p.Payload, Qos: q, Op: oi, Props: p.Props, VT: w.StartVT}
	if s != nil {
		ret.FromVer = s.Ver
	} else {
		ret.FromVer = 4
	}
	if e, ok := p.Props.Get(refcodec.PMessageExpiry); ok {
		ret.Expiry = e.Int
	}
	m.Retained[p.Topic] = ret
}

// MatchingSubs returns the non-shared subscriptions of s matching topic.
func (s *MSess) MatchingSubs(topic string) []MSub {
	var out []MSub
	for _, sub := range s.Subs {
		if _, _, sh := refmatch.SplitShare(sub.Filter); sh {
			continue
		}
		if refmatch.Match(sub.Filter, topic) {
			out = append(out, sub)
		}
	}
	sort.Slice(out, func(i, j int) bool { return out[i].Filter < out[j].Filter })
	return out
}

// SharedSubs returns the shared subscriptions of s matching topic, keyed by group.
func (s *MSess) SharedSubs(topic string) map[string][]MSub {
	out := map[string][]MSub{}
	for _, sub := range s.Subs {
		g, inner, sh := refmatch.SplitShare(sub.Filter)
		if sh && refmatch.Match(inner, topic) {
			out[g] = append(out[g], sub)
		}
	}
	return out
}

func (m *Model) SortedSessions() []*MSess {
	var ids []string
	for id := range m.Sess {
		ids = append(ids, id)
	}
	sort.Strings(ids)
	var out []*MSess
	for _, id := range ids {
		out = append(out, m.Sess[id])
	}
	return out
}

// Touched summarises which sessions / subscriptions the ops of a window may change (for must/may).
type Touched struct {
	Sess map[string]bool            // session ids affected by connect / disconnect / drop / close
	Subs map[string]map[string]bool // session id -> filters subscribed or unsubscribed
	Conns map[int]bool
	Retained map[string]bool
	Any  bool
}

func (m *Model) Touched(w *Window, except int) *Touched {
	t := &Touched{Sess: map[string]bool{}, Subs: map[string]map[string]bool{}, Conns: map[int]bool{}, Retained: map[string]bool{}}
	for _, oi := range w.Ops {
		if oi == except {
			continue
		}
		op := &m.r.Plan.Ops[oi]
		switch op.Kind {
		case "connect":
			if op.Pkt != nil {
				t.Sess[op.Pkt.ClientID] = true
				t.Any = true
			}
		case "disconnect", "drop", "close", "server_close", "packet", "raw", "stall", "failwrite":
			t.Any = true
			if op.Kind == "server_close" {
				for id := range m.Sess {
					t.Sess[id] = true
				}
			}
			if c := m.connOfOp(oi); c != nil {
				t.Conns[c.Idx] = true
				if id, ok := m.ConnSess[c.Idx]; ok {
					t.Sess[id] = true
				}
			}
		case "subscribe", "unsubscribe":
			if c := m.connOfOp(oi); c != nil {
				id := m.ConnSess[c.Idx]
				if id == "" {
					id = c.CID
				}
				if t.Subs[id] == nil {
					t.Subs[id] = map[string]bool{}
				}
				for _, f := range op.Pkt.Filters {
					t.Subs[id][f.Filter] = true
				}
			}
		case "publish", "inline_pub":
			if op.Pkt != nil && op.Pkt.Retain {
				t.Retained[op.Pkt.Topic] = true
			}
		case "advance", "clockstep":
			t.Any = true
		}
	}
	// connections closed by the broker inside the window also count
	for _, e := range m.r.H.Evs {
		if e.Seq >= w.StartSeq && e.Seq <= w.EndSeq && e.Kind == "close" {
			t.Conns[e.Conn] = true
			if id, ok := m.ConnSess[e.Conn]; ok {
				t.Sess[id] = true
			}
		}
	}
	return t
}

func payloadIDOf(s string) string {
	if i := strings.IndexByte(s, '.'); i >= 0 {
		return s[:i]
	}
	return s
}
