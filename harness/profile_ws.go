package harness

import (
	"encoding/json"
	"fmt"
	"strings"

	"verifharness/refcodec"
)

// ---------------------------------------------------------------------------------------------------
// C39: the WebSocket transport is byte-transparent.
//
// The same generated MQTT session is executed twice: over the plain simulated connection and through the
// real listeners.Websocket upgrade handler and wsConn, with the peer's byte stream cut into binary messages
// by the tape (1..n bytes, packets spanning messages, several packets per message, fragmented and empty
// messages, interleaved pings). The broker must read the same packets and write the same replies.

func genC39(t *Tape) *Plan {
	k := DefaultKnobs()
	k.Slots = 2
	k.IDs = []string{"a", "b"}
	k.Topics = []string{"t", "t/a"}
	k.Filters = []string{"t", "t/#", "#"}
	k.Ops = 16
	k.WConnect, k.WSub, k.WUnsub, k.WPub, k.WDisc, k.WDrop, k.WPing = 1, 3, 1, 8, 0, 0, 2
	k.V5Pct = 60
	k.CleanPct = 100
	k.PadMax = 150
	k.PropsPct = 40
	k.QosW = [3]int{2, 2, 2}
	g := NewGen(t, &k, "C39")
	cfg := &g.plan.Cfg
	cfg.Strategy = 0
	cfg.ChunkPct = []int{0, 40, 80}[t.Draw("c39.chunk", 3)]
	g.Connect(0)
	g.Connect(1)
	if t.Draw("c39.slow", 3) == 0 {
		// a slow WebSocket peer: the broker's writes to it block for a while, and during that time both of its
		// writers have something for it (the connection's reader an acknowledgement, the write loop a delivery).
		// The WebSocket framing layer allows one writer at a time; the replies still arrive intact, as over TCP.
		si := g.Subscribe(0)
		g.plan.Ops[si].Pkt.Filters = []refcodec.Filter{{Filter: "#", Opts: 1}}
		g.plan.Ops[si].Pkt.Props = nil
		g.add(Op{Kind: "stall", Slot: 0})
		for i, n := 0, 1+t.Draw("c39.slow.own", 2); i < n; i++ {
			pi := g.Publish(0) // its own QoS 1 publish comes back to it: an acknowledgement and a delivery at once
			pk := g.plan.Ops[pi].Pkt
			pk.Topic, pk.Qos, pk.Retain = "t", 1, false
			if pk.PacketID == 0 {
				pk.PacketID = g.pid(0)
			}
		}
		pi := g.Publish(1)
		g.plan.Ops[pi].Pkt.Topic = "t"
		g.add(Op{Kind: "ping", Slot: 0, Pkt: &refcodec.Packet{Type: refcodec.PINGREQ}})
		g.add(Op{Kind: "unstall", Slot: 0})
		g.add(Op{Kind: "advance", Ms: 10})
	}
	p := g.Run()
	for i := range p.Ops {
		p.Ops[i].Concurrent = false
	}
	if t.Draw("c39.text", 3) == 0 {
		p.Ops = append(p.Ops, Op{Kind: "ws_text", Slot: t.Draw("c39.textslot", 2)})
	}
	return p
}

func connTranscript(r *Result, c *Conn) (reads []string, writes []string) {
	for _, e := range r.H.Evs {
		if e.Kind == "hook" && e.Str == "read" && e.Conn == c.Idx && e.Read != nil {
			b, _ := json.Marshal(e.Read)
			reads = append(reads, string(b))
		}
	}
	for _, pr := range c.Pkts {
		writes = append(writes, pr.P.String())
	}
	return
}

func runC39(p *Profile, seed uint64, rf *ReplayFile) *RunOutcome {
	var plan *Plan
	var tape *Tape
	if rf != nil {
		plan = rf.Plan
		tape = ReplayTape(rf.Sched)
	} else {
		plan = genC39(NewTape(seed))
		tape = NewTape(mix(seed + 0x5ced))
	}
	rawPlan := clonePlan(plan)
	rawPlan.Cfg.Listener = ""
	rawPlan.Cfg.ChunkPct = 0
	wsPlan := clonePlan(plan)
	wsPlan.Cfg.Listener = "ws"
	raw := RunPlan(unitT, rawPlan, NewTape(1))
	ws := RunPlan(unitT, wsPlan, tape)
	lastResult = ws
	o := &RunOutcome{Digest: ws.Digest, Stats: ws.Stats, Leak: ws.BubbleLeak, SiteHits: ws.Ex.SiteHits, SitePark: ws.Ex.SitePark}
	if len(ws.Ex.Panics) > 0 {
		for _, pn := range ws.Ex.Panics {
			o.Violations = append(o.Violations, viol("C39", "panic", pn.Text+"\n"+clipStr(pn.Stack, 1000), -1, "in", brokerFrame(pn.Stack)))
		}
	}
	for i, c := range ws.Ex.Conns {
		if i >= len(raw.Ex.Conns) {
			break
		}
		if c.wsErr != "" {
			o.Violations = append(o.Violations, viol("C39", "websocket-stream-broken", fmt.Sprintf("conn %d: %s", c.Idx, c.wsErr), -1, "what", strings.SplitN(c.wsErr, ":", 2)[0]))
			continue
		}
		r1, w1 := connTranscript(raw, raw.Ex.Conns[i])
		r2, w2 := connTranscript(ws, c)
		textOp := false
		for _, op := range plan.Ops {
			if op.Kind == "ws_text" && op.Slot == c.Slot {
				textOp = true
			}
		}
		if a, b := strings.Join(r1, "\n"), strings.Join(r2, "\n"); a != b {
			o.Violations = append(o.Violations, viol("C39", "packets-read-differ", fmt.Sprintf("conn %d: over TCP the broker read %d packets, over WebSocket %d; first difference: %s", c.Idx, len(r1), len(r2), firstDiff(r1, r2)), -1,
				"count", cmpCount(len(r1), len(r2))))
		}
		for _, op := range plan.Ops {
			if op.Kind == "stall" {
				// with a blocked connection two writers (the reader's acknowledgements, the write loop's deliveries) queue
				// up behind it; in which order they get through is not part of transparency: same replies, any order.
				// (DUP marks and packet identifiers of the deliveries depend on that order too and are blanked.)
				w1, w2 = sortedReplies(w1), sortedReplies(w2)
				break
			}
		}
		if a, b := strings.Join(w1, "\n"), strings.Join(w2, "\n"); a != b {
			o.Violations = append(o.Violations, viol("C39", "replies-differ", fmt.Sprintf("conn %d: replies over TCP and over WebSocket differ (%d vs %d packets); first difference: %s", c.Idx, len(w1), len(w2), firstDiff(w1, w2)), -1,
				"count", cmpCount(len(w1), len(w2))))
		}
		if textOp {
			if bc := brokerCloseSeq(ws.H, c.Idx); bc < 0 || bc > teardownSeq(ws) {
				o.Violations = append(o.Violations, viol("C39", "text-message-did-not-end-connection", fmt.Sprintf("conn %d: a text message was sent but the connection stayed open", c.Idx), -1))
			}
		}
	}
	o.Violations = dedup(o.Violations)
	o.Relevant = ws.Stats.Deliveries > 3
	for k, v := range ws.Stats.Faults {
		if strings.HasPrefix(k, "ws.") && v > 0 {
			o.Probes = append(o.Probes, k)
		}
	}
	if ws.Stats.Chunked > 0 {
		o.Probes = append(o.Probes, "packet-spans-messages")
	}
	o.Replay = &ReplayFile{V: 1, Property: "C39", Profile: "C39", Engine: "A", RunSeed: seed, Plan: plan, Sched: append([]uint32(nil), tape.Rec...), Digest: ws.Digest, Steps: ws.Stats.Steps}
	o.Sample = sampleOf(ws)
	return o
}

func teardownSeq(r *Result) int {
	for _, e := range r.H.Evs {
		if e.Kind == "teardown" {
			return e.Seq
		}
	}
	return r.H.Len()
}

func cmpCount(a, b int) string {
	switch {
	case a == b:
		return "same"
	case a > b:
		return "fewer-over-websocket"
	}
	return "more-over-websocket"
}

func firstDiff(a, b []string) string {
	for i := 0; i < len(a) || i < len(b); i++ {
		var x, y string
		if i < len(a) {
			x = a[i]
		}
		if i < len(b) {
			y = b[i]
		}
		if x != y {
			return fmt.Sprintf("#%d tcp=%s ws=%s", i, clipStr(x, 160), clipStr(y, 160))
		}
	}
	return "-"
}

var _ = refcodec.PUBLISH

func init() {
	register(&Profile{Name: "C39", Engine: "A", Runner: runC39})
}
