package harness

import (
	"fmt"
	"sort"
	"strings"

	"verifharness/refcodec"
	"verifharness/refmatch"
)

// shape abstracts a filter or topic into a small vocabulary (for fingerprints).
func shape(s string) string {
	if s == "" {
		return "<empty>"
	}
	g, inner, sh := refmatch.SplitShare(s)
	pre := ""
	if sh {
		_ = g
		pre = "$share/g/"
		s = inner
	}
	ls := strings.Split(s, "/")
	for i, l := range ls {
		switch {
		case l == "+" || l == "#":
		case l == "":
			ls[i] = "<e>"
		case strings.HasPrefix(l, "$SYS"):
			ls[i] = "$SYS"
		case strings.HasPrefix(l, "$"):
			ls[i] = "$x"
		case strings.ContainsAny(l, "+#"):
			ls[i] = "x" + strings.Map(func(r rune) rune {
				if r == '+' || r == '#' {
					return r
				}
				return -1
			}, l)
		default:
			ls[i] = "x"
		}
	}
	return pre + strings.Join(ls, "/")
}

// PubJ is the model's judgement of one publish operation.
type PubJ struct {
	Op       int
	P        *refcodec.Packet
	W        *Window
	Accepted bool
	PubID    string // publishing session id ("" inline)
	PubVer   byte
	Must     map[string]bool
	May      map[string]bool
	Matching map[string][]MSub // non-shared matching subs per session
	Shared   map[string]map[string][]MSub
	Group    bool // the window holds other operations too
}

func (m *Model) judgePublish(w *Window, oi int) *PubJ {
	op := &m.r.Plan.Ops[oi]
	j := &PubJ{Op: oi, P: op.Pkt, W: w, Must: map[string]bool{}, May: map[string]bool{}, Matching: map[string][]MSub{}, Shared: map[string]map[string][]MSub{}, Group: len(w.Ops) > 1}
	pc, ps, ok := m.publisherOK(oi)
	j.Accepted = ok
	if ps != nil {
		j.PubID, j.PubVer = ps.ID, ps.Ver
	}
	t := m.Touched(w, oi)
	pubTouched := false
	if pc != nil && (t.Conns[pc.Idx] || (ps != nil && t.Sess[ps.ID])) {
		pubTouched = true
	}
	if ps != nil && ps.Uncertain {
		pubTouched = true
	}
	if pc != nil && ps == nil {
		// the publisher's connection is being established in this very window (or its session is unknown
		// to the model): whether the publish is accepted is not determined
		for _, o2 := range w.Ops {
			if o2 == pc.ConnectOp {
				pubTouched = true
			}
		}
	}
	topic := op.Pkt.Topic
	for _, c := range m.SortedSessions() {
		match := c.MatchingSubs(topic)
		if m.Cfg.Auth == "perm" && denied(m.Cfg, c.ID, topic, false) {
			match = nil
		}
		var elig []MSub
		for _, s := range match {
			if s.NoLocal() && ps != nil && ps.ID == c.ID {
				continue
			}
			elig = append(elig, s)
		}
		shared := c.SharedSubs(topic)
		if m.Cfg.Auth == "perm" && denied(m.Cfg, c.ID, topic, false) {
			shared = nil
		}
		j.Matching[c.ID] = match
		j.Shared[c.ID] = shared
		late := (c.Conn != nil && m.Late[c.Conn.Idx]) || c.SubsUnknown // its subscription set is not known (see Model.Late, MSess.SubsUnknown)
		touched := t.Sess[c.ID] || (c.Conn != nil && t.Conns[c.Conn.Idx]) || c.Uncertain || late
		if late && (j.Accepted || pubTouched) {
			j.May[c.ID] = true
		}
		subTouched := false
		for f := range t.Subs[c.ID] {
			if refmatch.MatchSub(f, topic) {
				subTouched = true
			}
		}
		if j.Accepted && !pubTouched && c.Conn != nil && len(elig) > 0 && !touched && !subTouched {
			j.Must[c.ID] = true
		}
		if (j.Accepted || pubTouched) && (len(elig) > 0 || len(shared) > 0 || subTouched) {
			j.May[c.ID] = true
		}
		if touched && (len(match) > 0 || len(shared) > 0) && (j.Accepted || pubTouched) {
			j.May[c.ID] = true
		}
	}
	// sessions that come into being inside the window (connect + subscribe in the same group)
	for id, fs := range t.Subs {
		if m.Sess[id] == nil {
			for f := range fs {
				if refmatch.MatchSub(f, topic) {
					j.May[id] = true
				}
			}
		}
	}
	return j
}

// copiesOf returns, per session id, the PUBLISH packets carrying the payload id of op oi written inside the window.
func (m *Model) copiesOf(w *Window, oi int, from, to int) map[string][]*PktRec {
	want := payloadIDOf(m.r.Plan.Ops[oi].Pkt.Payload)
	out := map[string][]*PktRec{}
	for _, c := range m.r.Ex.Conns {
		id, ok := m.ConnSess[c.Idx]
		if !ok {
			id = c.CID
		}
		for _, pr := range c.Pkts {
			if pr.Seq < from || pr.Seq > to || pr.P.Type != refcodec.PUBLISH {
				continue
			}
			if payloadIDOf(pr.P.Payload) == want {
				out[id] = append(out[id], pr)
			}
		}
	}
	return out
}

func hookSeen(r *Result, w *Window, name, str2 string) bool {
	for _, e := range r.H.Evs {
		if e.Seq < w.StartSeq || e.Seq > w.EndSeq {
			continue
		}
		if e.Kind == "hook" && e.Str == name && e.Str2 == str2 {
			return true
		}
	}
	return false
}

func probeBefore(r *Result, seq int) *Probe {
	var p *Probe
	for _, e := range r.H.Evs {
		if e.Seq >= seq {
			break
		}
		if e.Kind == "quiesce" {
			p = e.Probe
		}
	}
	return p
}

func probeAt(r *Result, seq int) *Probe {
	if seq >= 0 && seq < len(r.H.Evs) && r.H.Evs[seq].Kind == "quiesce" {
		return r.H.Evs[seq].Probe
	}
	return nil
}

// copySize estimates the encoded size of the copy of P delivered to a v5/v3 receiver.
func copySize(p *refcodec.Packet, ver byte, nSubIDs int) int {
	cp := *p
	cp.PacketID = 1
	if ver == 5 {
		for i := 0; i < nSubIDs; i++ {
			cp.Props = append(append(refcodec.Props{}, cp.Props...), refcodec.Prop{ID: refcodec.PSubscriptionID, Int: 1})
		}
	} else {
		cp.Props = nil
	}
	n := len(refcodec.Encode(&cp, ver, refcodec.EncOpts{}))
	if ver == 5 {
		// properties the broker may legitimately add to its copy: Message Expiry Interval (5 bytes, when the
		// server caps message expiry) and a Topic Alias (3 bytes)
		if !cp.Props.Has(refcodec.PMessageExpiry) {
			n += 5
		}
		n += 3
	}
	return n
}

// walk visits every window with the model in its pre-state, then applies the window.
func walk(r *Result, visit func(m *Model, w *Window)) *Model {
	m := NewModel(r)
	ws := BuildWindows(r)
	for i := range ws {
		visit(m, &ws[i])
		m.Apply(&ws[i])
	}
	return m
}

func stalledConn(c *Conn) bool {
	if c == nil {
		return false
	}
	c.mu.Lock()
	defer c.mu.Unlock()
	return c.stalled || c.writerWait
}

// ---------------------------------------------------------------------------------------------------
// C03 (delivery to exactly the entitled subscribers, once each) and C04 (QoS / sub ids / retain flag)

func checkDelivery(r *Result, prop string) []Violation {
	var out []Violation
	if len(r.Plan.Cfg.Hooks) > 0 {
		return nil
	}
	everStalled := map[int]bool{}
	for _, e := range r.H.Evs {
		if e.Kind == "fault" && (e.Str == "net.stall" || e.Str == "net.write_error" || e.Str == "net.short_write") {
			everStalled[e.Conn] = true
		}
	}
	walk(r, func(m *Model, w *Window) {
		if !w.Complete {
			return
		}
		for _, oi := range w.Ops {
			op := &r.Plan.Ops[oi]
			if (op.Kind != "publish" && op.Kind != "inline_pub") || op.Pkt == nil || op.Pkt.Type != refcodec.PUBLISH {
				continue
			}
			if op.Note == "dup" || op.Note == "retransmit" {
				continue // retransmission families are judged by C08
			}
			if op.Pkt.Payload == "" {
				continue // a retained-clear carries no identifying payload
			}
			if pc := m.connOfOp(oi); op.Kind == "publish" && pc != nil && (stalledConn(pc) || everStalled[pc.Idx]) {
				continue // the publisher's own handler is held by an injected write fault: the publish may not have been read
			}
			j := m.judgePublish(w, oi)
			copies := m.copiesOf(w, oi, w.StartSeq, w.EndSeq)
			p0, p1 := probeBefore(r, w.StartSeq), probeAt(r, w.EndSeq)
			inflightDropRose := p0 != nil && p1 != nil && p1.InflightDropped > p0.InflightDropped
			ids := map[string]bool{}
			for id := range copies {
				ids[id] = true
			}
			for id := range j.Must {
				ids[id] = true
			}
			var sids []string
			for id := range ids {
				sids = append(sids, id)
			}
			sort.Strings(sids)
			for _, id := range sids {
				c := m.Sess[id]
				var live []*PktRec
				for _, pr := range copies[id] {
					if !pr.P.Dup {
						live = append(live, pr)
					}
				}
				n := len(live)
				fshape := "-"
				if c != nil {
					var fs []string
					for _, s := range j.Matching[id] {
						fs = append(fs, shape(s.Filter))
					}
					for _, ss := range j.Shared[id] {
						for _, s := range ss {
							fs = append(fs, shape(s.Filter))
						}
					}
					sort.Strings(fs)
					fshape = strings.Join(fs, ",")
				}
				if prop == "C03" {
					retainedTwin := 0
					if j.Group && op.Pkt.Retain {
						retainedTwin = 1
					}
					if n > 1+retainedTwin {
						out = append(out, viol("C03", "duplicate-delivery", fmt.Sprintf("publish op %d %s delivered %d times to session %q (filters %s)", oi, op.Pkt, n, id, fshape), live[1].Seq,
							"filters", fshape, "qos", fmt.Sprint(op.Pkt.Qos)))
					}
					if n > 0 && !j.May[id] {
						out = append(out, viol("C03", "unexpected-delivery", fmt.Sprintf("publish op %d %s delivered to session %q which holds no entitled matching subscription (filters %s, accepted=%v)", oi, op.Pkt, id, fshape, j.Accepted), live[0].Seq,
							"cause", unexpectedCause(c, op.Pkt.Topic, j.Accepted), "accepted", fmt.Sprint(j.Accepted), "session", originOf(c)))
					}
					if n == 0 && j.Must[id] && c != nil && !stallActive(r, w.StartSeq, w.EndSeq) {
						pidStr := payloadIDOf(op.Pkt.Payload)
						permitted := hookSeen(r, w, "publish_dropped", id+"|"+pidStr) || hookSeen(r, w, "pid_exhausted", id+"|"+pidStr)
						maxq := byte(0)
						for _, s := range j.Matching[id] {
							if s.Qos() > maxq {
								maxq = s.Qos()
							}
						}
						effq := op.Pkt.Qos
						if maxq < effq {
							effq = maxq
						}
						if r.Plan.Cfg.MaxQos < effq {
							effq = r.Plan.Cfg.MaxQos
						}
						if effq > 0 && inflightDropRose {
							permitted = true
						}
						if c.MaxPkt > 0 && copySize(op.Pkt, c.Ver, len(j.Matching[id])) > int(c.MaxPkt) {
							permitted = true
						}
						if c.Conn != nil && (stalledConn(c.Conn) || everStalled[c.Conn.Idx]) {
							permitted = true
						}
						nnl := 0
						for _, s := range j.Matching[id] {
							if s.NoLocal() {
								nnl++
							}
						}
						nl := "none"
						if nnl == len(j.Matching[id]) {
							nl = "all"
						} else if nnl > 0 {
							nl = "mixed"
						}
						if !permitted {
							out = append(out, viol("C03", "missing-delivery", fmt.Sprintf("publish op %d %s was not delivered to connected session %q holding matching filters %s and no drop was reported", oi, op.Pkt, id, fshape), w.EndSeq,
								"via", viaKinds(j.Matching[id], op.Pkt.Topic), "dollar_topic", fmt.Sprint(strings.HasPrefix(op.Pkt.Topic, "$")), "selfpub", fmt.Sprint(j.PubID == id), "inline", fmt.Sprint(op.Kind == "inline_pub"), "session", c.Origin, "nolocal", nl))
						}
					}
					// content
					if n >= 1 && c != nil {
						got := live[0].P
						if got.Payload != op.Pkt.Payload {
							out = append(out, viol("C03", "payload-changed", fmt.Sprintf("publish op %d: payload %q delivered as %q", oi, trunc24(op.Pkt.Payload), trunc24(got.Payload)), live[0].Seq))
						}
						if got.Topic != op.Pkt.Topic && got.Topic != "" {
							out = append(out, viol("C03", "topic-changed", fmt.Sprintf("publish op %d: topic %q delivered as %q", oi, op.Pkt.Topic, got.Topic), live[0].Seq))
						}
						if r.Ex.Conns[live[0].Conn].Ver == 5 && j.PubVer == 5 {
							for _, pid := range []byte{refcodec.PContentType, refcodec.PResponseTopic, refcodec.PCorrelationData} {
								a, aok := op.Pkt.Props.Get(pid)
								b, bok := got.Props.Get(pid)
								if aok != bok || a.Str != b.Str {
									out = append(out, viol("C03", "property-changed", fmt.Sprintf("publish op %d: property %d sent %v/%q delivered %v/%q", oi, pid, aok, a.Str, bok, b.Str), live[0].Seq, "prop", fmt.Sprint(pid)))
								}
							}
							ua, ub := op.Pkt.Props.All(refcodec.PUserProperty), got.Props.All(refcodec.PUserProperty)
							if fmt.Sprint(ua) != fmt.Sprint(ub) {
								out = append(out, viol("C03", "property-changed", fmt.Sprintf("publish op %d: user properties sent %v delivered %v", oi, ua, ub), live[0].Seq, "prop", "user"))
							}
						}
					}
				}
				if prop == "C34" && n == 0 && j.Must[id] && c != nil && !stallActive(r, w.StartSeq, w.EndSeq) && !(c.Conn != nil && everStalled[c.Conn.Idx]) {
					// a message that was not written must have been reported to the hooks as dropped
					pidStr := payloadIDOf(op.Pkt.Payload)
					reportedDrop := hookSeen(r, w, "publish_dropped", id+"|"+pidStr) || hookSeen(r, w, "pid_exhausted", id+"|"+pidStr)
					for _, e := range r.H.Evs {
						if e.Seq >= w.StartSeq && e.Seq <= w.EndSeq && e.Kind == "hook" && e.Str == "qos_dropped" && e.Str2 == id+"|"+pidStr {
							reportedDrop = true
						}
					}
					if !reportedDrop {
						cause := "unknown"
						if inflightDropRose {
							cause = "in-flight-limit"
						} else if c.MaxPkt > 0 && copySize(op.Pkt, c.Ver, len(j.Matching[id])) > int(c.MaxPkt) {
							cause = "exceeds-client-maximum-packet-size"
						} else if viaKinds(j.Matching[id], op.Pkt.Topic) != "exact" || c.Origin != "fresh" {
							cause = "not-a-drop" // matching / session defects are C01 / C03 / C14 findings, not unreported drops
						}
						nnl := 0
						for _, s := range j.Matching[id] {
							if s.NoLocal() {
								nnl++
							}
						}
						if nnl > 0 && j.PubID == id {
							cause = "not-a-drop"
						}
						if c.Conn != nil && !registeredAs(r, w.EndSeq, id, c.Conn.Idx) {
							cause = "not-a-drop" // the client registry no longer maps the id to this connection: a C14 finding, not a drop
						}
						if cause != "not-a-drop" {
							out = append(out, viol("C34", "drop-not-reported-to-hooks", fmt.Sprintf("publish op %d %s was not written to connected session %q and no hook was told about a drop (cause: %s)", oi, op.Pkt, id, cause), w.EndSeq, "cause", cause))
						}
					}
				}
				if prop == "C04" && n >= 1 && c != nil && !j.Group && len(j.Shared[id]) == 0 && len(j.Matching[id]) > 0 {
					got := live[0].P
					maxq := byte(0)
					var wantIDs []int
					allRAP, noneRAP := true, true
					for _, s := range j.Matching[id] {
						if s.Qos() > maxq {
							maxq = s.Qos()
						}
						if s.SubID > 0 {
							wantIDs = append(wantIDs, int(s.SubID))
						}
						if s.RAP() {
							noneRAP = false
						} else {
							allRAP = false
						}
					}
					want := op.Pkt.Qos
					if maxq < want {
						want = maxq
					}
					if r.Plan.Cfg.MaxQos < want {
						want = r.Plan.Cfg.MaxQos
					}
					if got.Qos != want {
						out = append(out, viol("C04", "delivered-qos", fmt.Sprintf("publish op %d (qos %d) to session %q: delivered qos %d, expected min(pub %d, subs %d, server %d) = %d", oi, op.Pkt.Qos, id, got.Qos, op.Pkt.Qos, maxq, r.Plan.Cfg.MaxQos, want), live[0].Seq,
							"pubqos", fmt.Sprint(op.Pkt.Qos), "subqos", fmt.Sprint(maxq), "maxqos", fmt.Sprint(r.Plan.Cfg.MaxQos), "got", fmt.Sprint(got.Qos), "nsubs", fmt.Sprint(len(j.Matching[id]))))
					}
					if c.Ver == 5 {
						var gotIDs []int
						for _, sp := range got.Props.All(refcodec.PSubscriptionID) {
							gotIDs = append(gotIDs, int(sp.Int))
						}
						sort.Ints(gotIDs)
						sort.Ints(wantIDs)
						if fmt.Sprint(gotIDs) != fmt.Sprint(wantIDs) {
							out = append(out, viol("C04", "subscription-identifiers", fmt.Sprintf("publish op %d to session %q: subscription identifiers %v, expected %v (matching %s)", oi, id, gotIDs, wantIDs, fshape), live[0].Seq,
								"delivery", "live", "nsubs", fmt.Sprint(len(j.Matching[id])), "want", fmt.Sprint(len(wantIDs)), "got", fmt.Sprint(len(gotIDs))))
						}
					}
					wantRetain := -1
					if !op.Pkt.Retain || c.Ver < 5 || noneRAP {
						wantRetain = 0
					} else if allRAP {
						wantRetain = 1
					}
					if wantRetain >= 0 && (got.Retain != (wantRetain == 1)) {
						out = append(out, viol("C04", "retain-flag", fmt.Sprintf("publish op %d (retain %v) to session %q (v%d): delivered retain=%v, expected %v", oi, op.Pkt.Retain, id, c.Ver, got.Retain, wantRetain == 1), live[0].Seq,
							"delivery", "live", "ver", verClass(c.Ver), "rap", fmt.Sprint(allRAP)))
					}
				}
			}
		}
	})
	return out
}

func trunc24(s string) string {
	if len(s) > 24 {
		return s[:24] + "…"
	}
	return s
}

func checkC03(r *Result) []Violation { return checkDelivery(r, "C03") }
func checkC04(r *Result) []Violation {
	out := checkDelivery(r, "C04")
	out = append(out, checkRetainedReplay(r, "C04")...)
	out = append(out, checkSubackQos(r)...)
	return out
}

// SUBACK granted QoS = requested capped at the server maximum (or a failure code).
func checkSubackQos(r *Result) []Violation {
	var out []Violation
	sent := sentPackets(r)
	for _, c := range r.Ex.Conns {
		for _, s := range sent[c.Idx] {
			if s.P == nil || s.P.Type != refcodec.SUBSCRIBE {
				continue
			}
			for _, pr := range c.Pkts {
				if pr.P.Type == refcodec.SUBACK && pr.P.PacketID == s.P.PacketID && pr.Seq > s.Seq {
					for i, f := range s.P.Filters {
						if i >= len(pr.P.ReasonCodes) {
							break
						}
						rc := pr.P.ReasonCodes[i]
						if rc >= 0x80 {
							continue
						}
						want := f.Qos()
						if want > r.Plan.Cfg.MaxQos {
							want = r.Plan.Cfg.MaxQos
						}
						if rc != want {
							out = append(out, viol("C04", "suback-qos", fmt.Sprintf("conn %d: SUBSCRIBE %q requested qos %d, server max %d: SUBACK grants %d", c.Idx, f.Filter, f.Qos(), r.Plan.Cfg.MaxQos, rc), pr.Seq,
								"req", fmt.Sprint(f.Qos()), "max", fmt.Sprint(r.Plan.Cfg.MaxQos), "got", fmt.Sprint(rc)))
						}
					}
					break
				}
			}
		}
	}
	return out
}

// ---------------------------------------------------------------------------------------------------
// Retained replay after SUBSCRIBE: C02 (exactly the matching ones), C05 (latest per topic, retain handling,
// shared never, retain unavailable), C04 (QoS / sub id / retain flag of replayed copies)

func checkRetainedReplay(r *Result, prop string) []Violation {
	var out []Violation
	if len(r.Plan.Cfg.Hooks) > 0 {
		return nil
	}
	walk(r, func(m *Model, w *Window) {
		if !w.Complete || len(w.Ops) != 1 {
			return
		}
		oi := w.Ops[0]
		op := &r.Plan.Ops[oi]
		if op.Kind != "subscribe" {
			return
		}
		c := m.connOfOp(oi)
		if c == nil {
			return
		}
		s := m.Sess[m.ConnSess[c.Idx]]
		if s == nil || s.Conn != c {
			return
		}
		ack := m.ackFor(c, w, refcodec.SUBACK, op.Pkt.PacketID)
		if ack == nil {
			return
		}
		var subid uint32
		if p, ok := op.Pkt.Props.Get(refcodec.PSubscriptionID); ok {
			subid = p.Int
		}
		// expected copies per topic: min 1 / max (number of filters of this packet that ask for it)
		type exp struct {
			min, max int
			ret      *MRet
			filters  []refcodec.Filter
		}
		want := map[string]*exp{}
		for i, f := range op.Pkt.Filters {
			if i >= len(ack.P.ReasonCodes) || ack.P.ReasonCodes[i] >= 0x80 {
				continue
			}
			if _, _, sh := refmatch.SplitShare(f.Filter); sh {
				continue
			}
			rh := f.RH()
			if s.Ver < 5 {
				rh = 0
			}
			_, existed := s.Subs[f.Filter]
			for k := 0; k < i; k++ {
				if op.Pkt.Filters[k].Filter == f.Filter {
					existed = true
				}
			}
			if rh == 2 || (rh == 1 && existed) {
				continue
			}
			for topic, ret := range m.Retained {
				if !refmatch.Match(f.Filter, topic) {
					continue
				}
				if m.Cfg.Auth == "perm" && denied(m.Cfg, s.ID, topic, false) {
					continue
				}
				e := want[topic]
				if e == nil {
					e = &exp{ret: ret}
					want[topic] = e
				}
				e.max++
				e.min = 1
				e.filters = append(e.filters, f)
			}
		}
		got := map[string][]*PktRec{}
		for _, pr := range c.Pkts {
			if pr.Seq <= ack.Seq || pr.Seq > w.EndSeq || pr.P.Type != refcodec.PUBLISH {
				continue
			}
			got[pr.P.Topic] = append(got[pr.P.Topic], pr)
		}
		fsh := func(fs []refcodec.Filter) string {
			var x []string
			for _, f := range fs {
				x = append(x, shape(f.Filter))
			}
			sort.Strings(x)
			return strings.Join(x, ",")
		}
		allf := fsh(op.Pkt.Filters)
		var topics []string
		for t := range want {
			topics = append(topics, t)
		}
		for t := range got {
			if want[t] == nil {
				topics = append(topics, t)
			}
		}
		sort.Strings(topics)
		oversize := func(ret *MRet) bool {
			if s.MaxPkt == 0 {
				return false
			}
			p := &refcodec.Packet{Type: refcodec.PUBLISH, Topic: ret.Topic, Payload: ret.Payload, Qos: 1, Props: ret.Props}
			return copySize(p, s.Ver, 1) > int(s.MaxPkt)
		}
		for _, t := range topics {
			if m.AmbigRetained[t] {
				continue
			}
			e := want[t]
			g := got[t]
			if e == nil {
				if prop == "C02" || prop == "C05" {
					cls := "unexpected-retained"
					why := "no-match"
					if _, ok := m.Retained[t]; !ok {
						why = "not-retained"
					} else {
						matched := false
						for _, f := range op.Pkt.Filters {
							if refmatch.MatchSub(f.Filter, t) {
								matched = true
							}
						}
						if matched {
							why = "suppressed-by-options"
						}
					}
					if (prop == "C02" && why == "no-match") || (prop == "C05" && why != "no-match") {
						out = append(out, viol(prop, cls, fmt.Sprintf("SUBSCRIBE op %d %v: retained message on %q sent although it should not be (%s)", oi, op.Pkt.Filters, t, why), g[0].Seq,
							"filters", allf, "topic", shape(t), "why", why))
					}
				}
				continue
			}
			if len(g) < e.min {
				if oversize(e.ret) || stalledConn(c) {
					continue
				}
				if prop == "C02" || prop == "C05" {
					out = append(out, viol(prop, "missing-retained", fmt.Sprintf("SUBSCRIBE op %d %v: retained message on %q (from op %d) was not sent", oi, op.Pkt.Filters, t, e.ret.Op), w.EndSeq,
						"filters", fsh(e.filters), "topic", shape(t)))
				}
				continue
			}
			if len(g) > e.max && (prop == "C02" || prop == "C05") {
				out = append(out, viol(prop, "duplicate-retained", fmt.Sprintf("SUBSCRIBE op %d %v: retained message on %q sent %d times", oi, op.Pkt.Filters, t, len(g)), g[len(g)-1].Seq, "filters", fsh(e.filters), "topic", shape(t)))
			}
			for _, pr := range g {
				if prop == "C05" {
					if pr.P.Payload != e.ret.Payload {
						out = append(out, viol("C05", "stale-retained", fmt.Sprintf("SUBSCRIBE op %d: retained message on %q is %q, latest retained publish was %q (op %d)", oi, t, trunc24(pr.P.Payload), trunc24(e.ret.Payload), e.ret.Op), pr.Seq))
					}
					if !pr.P.Retain {
						out = append(out, viol("C05", "retain-flag-clear", fmt.Sprintf("SUBSCRIBE op %d: retained message on %q replayed with retain flag 0", oi, t), pr.Seq, "ver", verClass(s.Ver)))
					}
				}
				if prop == "C04" && len(e.filters) == 1 {
					f := e.filters[0]
					wq := e.ret.Qos
					if f.Qos() < wq {
						wq = f.Qos()
					}
					if m.Cfg.MaxQos < wq {
						wq = m.Cfg.MaxQos
					}
					if pr.P.Qos != wq {
						out = append(out, viol("C04", "delivered-qos", fmt.Sprintf("retained replay on %q to %q: qos %d, expected %d", t, s.ID, pr.P.Qos, wq), pr.Seq,
							"pubqos", fmt.Sprint(e.ret.Qos), "subqos", fmt.Sprint(f.Qos()), "maxqos", fmt.Sprint(m.Cfg.MaxQos), "got", fmt.Sprint(pr.P.Qos), "nsubs", "retained"))
					}
					if s.Ver == 5 {
						var gotIDs []int
						for _, sp := range pr.P.Props.All(refcodec.PSubscriptionID) {
							gotIDs = append(gotIDs, int(sp.Int))
						}
						var wantIDs []int
						if subid > 0 {
							wantIDs = []int{int(subid)}
						}
						if fmt.Sprint(gotIDs) != fmt.Sprint(wantIDs) {
							out = append(out, viol("C04", "subscription-identifiers", fmt.Sprintf("retained replay on %q to %q: subscription identifiers %v, expected %v", t, s.ID, gotIDs, wantIDs), pr.Seq,
								"delivery", "retained", "nsubs", "1", "want", fmt.Sprint(len(wantIDs)), "got", fmt.Sprint(len(gotIDs))))
						}
					}
				}
			}
		}
		if m.Cfg.RetainOff && len(got) > 0 && prop == "C05" {
			for t, g := range got {
				if g[0].P.Retain {
					out = append(out, viol("C05", "retained-while-unavailable", fmt.Sprintf("retained message on %q sent although the server has retain unavailable", t), g[0].Seq))
				}
			}
		}
	})
	return out
}

func checkC02(r *Result) []Violation { return checkRetainedReplay(r, "C02") }
func checkC05(r *Result) []Violation { return checkRetainedReplay(r, "C05") }

// registeredAs reports whether, at the last quiescent probe at or before seq, the broker's client registry
// mapped id to connection conn. Without a probe it answers true.
func registeredAs(r *Result, seq int, id string, conn int) bool {
	var last *Probe
	for _, e := range r.H.Evs {
		if e.Seq > seq {
			break
		}
		if e.Kind == "quiesce" && e.Probe != nil {
			last = e.Probe
		}
	}
	if last == nil {
		return true
	}
	cp, ok := last.Clients[id]
	return ok && cp.Conn == conn
}
