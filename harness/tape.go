package harness

import "hash/fnv"

// Tape is the single source of every choice in a run: in generation mode draws come from a SplitMix64
// stream; in replay mode from a recorded list (exhausted => 0, i.e. the simplest choice).
type Tape struct {
	state  uint64
	replay []uint32
	isRep  bool
	pos    int
	Rec    []uint32 // values drawn, in order
	Labels []string // label of each draw (static strings)
	Bounds []int
	Diverged int // replay draws whose recorded value was out of range for the bound now requested
}

func mix(seed uint64) uint64 {
	z := seed + 0x9e3779b97f4a7c15
	z = (z ^ (z >> 30)) * 0xbf58476d1ce4e5b9
	z = (z ^ (z >> 27)) * 0x94d049bb133111eb
	return z ^ (z >> 31)
}

// SeedFor derives the seed of one run from VERIF_SEED, profile, worker and run number.
func SeedFor(base uint64, profile string, worker, run int) uint64 {
	h := fnv.New64a()
	h.Write([]byte(profile))
	return mix(mix(base^h.Sum64()) + uint64(worker)*1000003 + uint64(run)*7919 + 1)
}

func NewTape(seed uint64) *Tape { return &Tape{state: seed} }

func ReplayTape(vals []uint32) *Tape { return &Tape{replay: vals, isRep: true} }

func (t *Tape) next() uint64 {
	t.state += 0x9e3779b97f4a7c15
	z := t.state
	z = (z ^ (z >> 30)) * 0xbf58476d1ce4e5b9
	z = (z ^ (z >> 27)) * 0x94d049bb133111eb
	return z ^ (z >> 31)
}

// Draw returns a value in [0,n). 0 is always the simplest choice.
func (t *Tape) Draw(label string, n int) int {
	if n <= 1 {
		return 0
	}
	var v uint32
	if t.isRep {
		if t.pos < len(t.replay) {
			v = t.replay[t.pos]
			if int(v) >= n {
				t.Diverged++
				v = v % uint32(n)
			}
		}
		t.pos++
	} else {
		v = uint32(t.next() % uint64(n))
	}
	t.Rec = append(t.Rec, v)
	t.Labels = append(t.Labels, label)
	t.Bounds = append(t.Bounds, n)
	return int(v)
}

// Chance draws true with probability num/den.
func (t *Tape) Chance(label string, num, den int) bool {
	if num <= 0 {
		return false
	}
	return t.Draw(label, den) >= den-num // so that 0 => false
}

// Pick draws an index according to integer weights; index 0 is the simplest choice only if callers order
// their alternatives that way.
func (t *Tape) Pick(label string, weights []int) int {
	total := 0
	for _, w := range weights {
		total += w
	}
	if total <= 0 {
		return 0
	}
	v := t.Draw(label, total)
	for i, w := range weights {
		if v < w {
			return i
		}
		v -= w
	}
	return len(weights) - 1
}
