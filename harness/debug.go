package harness

import (
	"fmt"
	"os"
	"strings"

	mqtt "github.com/mochi-mqtt/server/v2"

	"github.com/mochi-mqtt/server/v2/verifsim"
)

var debugSched func(ex *Ex, a action)

func init() {
	if p := os.Getenv("VERIF_SCHED_LOG"); p != "" {
		f, _ := os.Create(p)
		debugSched = func(ex *Ex, a action) {
			var ks []string
			for _, x := range ex.actions() {
				k := x.key
				if x.task != nil {
					k += "@" + verifsim.SiteString(x.task.Site)
				}
				ks = append(ks, k)
			}
			fmt.Fprintf(f, "step %d choose %s among [%s] tapepos=%d\n", ex.Stats.Steps, a.key, strings.Join(ks, " "), len(ex.tape.Rec))
		}
	}
}

type mqttClient = mqtt.Client
