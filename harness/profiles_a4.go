package harness

import (
	"fmt"
	"sort"
	"strings"

	"verifharness/refcodec"
	"verifharness/refmatch"
)

// ---------------------------------------------------------------------------------------------------
// C25: message expiry

func genC25(t *Tape) *Plan {
	k := DefaultKnobs()
	k.Slots = 3
	k.IDs = []string{"s", "p", "q"}
	k.Topics = []string{"t", "u"}
	k.Filters = []string{"t", "#", "u"}
	k.Ops = 18
	k.WConnect, k.WSub, k.WUnsub, k.WPub, k.WDisc, k.WDrop, k.WAdv, k.WAck = 2, 3, 0, 8, 1, 2, 5, 2
	k.CleanPct = 10
	k.V5Pct = 85
	k.ExpiryChoices = []uint32{300}
	k.MsgExpiryChoices = []uint32{0, 1, 2, 3, 10}
	k.RetainPct = 35
	k.QosW = [3]int{1, 3, 2}
	k.SubQosW = [3]int{0, 3, 2}
	k.RecvMaxChoices = []uint16{0, 1, 2}
	k.ManualAckPct = 40
	k.AdvMs = []int{500, 1000, 2000, 3000, 4000}
	g := NewGen(t, &k, "C25")
	cfg := &g.plan.Cfg
	GenSchedConfig(t, cfg)
	switch t.Draw("c25.maxexp", 4) {
	case 0:
		cfg.NoMsgExpiryCap = true
	case 1:
		cfg.MaxMsgExpiry = 2
	case 2:
		cfg.MaxMsgExpiry = 5
	}
	g.Connect(0)
	g.Subscribe(0)
	if t.Draw("c25.shape", 3) == 0 {
		// offline-queue skeleton: the subscriber goes away, messages with different expiry intervals are queued
		// for its session at different times, housekeeping runs, the subscriber comes back; the random tail
		// follows. Which intervals, how many, and the waits in between are drawn from the tape.
		first := len(g.plan.Ops)
		for i := range g.plan.Ops {
			if g.plan.Ops[i].Kind == "subscribe" && g.plan.Ops[i].Pkt != nil && len(g.plan.Ops[i].Pkt.Filters) > 0 {
				g.plan.Ops[i].Pkt.Filters[0].Filter = "#"
				g.plan.Ops[i].Pkt.Filters[0].Opts = g.plan.Ops[i].Pkt.Filters[0].Opts&^3 | 1
			}
			if g.plan.Ops[i].Kind == "connect" && g.plan.Ops[i].Pkt != nil {
				g.plan.Ops[i].Pkt.CleanStart = false
			}
		}
		g.Connect(1)
		g.Drop(0)
		for i, n := 0, 2+t.Draw("c25.queued", 3); i < n; i++ {
			g.Publish(1)
			if t.Draw("c25.gap", 2) == 0 {
				g.add(Op{Kind: "advance", Ms: k.AdvMs[t.Draw("c25.gapms", len(k.AdvMs))]})
			}
		}
		g.add(Op{Kind: "advance", Ms: k.AdvMs[t.Draw("c25.wait", len(k.AdvMs))]})
		g.Connect(0)
		g.plan.Ops[len(g.plan.Ops)-1].Pkt.CleanStart = false
		for i := first; i < len(g.plan.Ops); i++ {
			g.plan.Ops[i].Concurrent = false
		}
	}
	p := g.Run()
	p.Ops = append(p.Ops, Op{Kind: "advance", Ms: 3000})
	return p
}

func checkC25(r *Result) []Violation {
	var out []Violation
	cfg := &r.Plan.Cfg
	serverMax := cfg.MaxMsgExpiry
	if serverMax == 0 && !cfg.NoMsgExpiryCap {
		serverMax = 86400
	}
	if cfg.NoMsgExpiryCap {
		serverMax = 0
	}
	// effective expiry and publish time per payload id
	type pubInfo struct {
		vt  int64
		eff int64
		op  int
		seq int
	}
	pubs := map[string]pubInfo{}
	for i, op := range r.Plan.Ops {
		if op.Kind != "publish" || op.Pkt == nil || op.Pkt.Payload == "" {
			continue
		}
		var pe int64
		if p, ok := op.Pkt.Props.Get(refcodec.PMessageExpiry); ok {
			pe = int64(p.Int)
		}
		eff := pe
		if serverMax != 0 && (eff == 0 || serverMax < eff) {
			eff = serverMax
		}
		// publish time: when the packet was delivered
		vt := int64(-1)
		seq := -1
		for _, e := range r.H.Evs {
			if e.Kind == "in" && e.Last && e.Op == i {
				vt, seq = e.VT, e.Seq
				break
			}
		}
		if vt >= 0 {
			pubs[payloadIDOf(op.Pkt.Payload)] = pubInfo{vt, eff, i, seq}
		}
	}
	for _, c := range r.Ex.Conns {
		seen := map[string]bool{}
		for _, pr := range c.Pkts {
			if pr.P.Type != refcodec.PUBLISH {
				continue
			}
			id := payloadIDOf(pr.P.Payload)
			pi, ok := pubs[id]
			if !ok || pi.eff == 0 {
				continue
			}
			// "not yet sent" is judged on the wire: the broker sets DUP on everything it sends after a reconnect,
			// also on messages it had only queued
			first := !seen[id] && !hasBeenWritten(r, sessIDOfConn(c), id, pr.Seq)
			seen[id] = true
			path := "live"
			if pr.P.Retain {
				path = "retained"
			} else if pr.VT > pi.vt {
				path = "queued-or-deferred"
			}
			expireAt := (pi.vt/1000)*1000 + pi.eff*1000 // whole seconds, as the broker's clock counts
			if first && pr.VT > expireAt+2000 {
				// why was it held back: the session was offline when it was published, or it was connected (then only
				// flow control can have deferred it)
				held := "offline"
				rmLimited := "false" // did the session's connection at (or last before) publish time declare a small Receive Maximum?
				lastOpen := -1
				for _, c2 := range r.Ex.Conns {
					if sessIDOfConn(c2) != sessIDOfConn(c) || c2.openSeq > pi.seq {
						continue
					}
					if c2.closeSeq < 0 || c2.closeSeq > pi.seq {
						held = "connected"
					}
					if c2.openSeq > lastOpen {
						lastOpen = c2.openSeq
						rmLimited = "false"
						if cp2 := connectPkt(c2, r); cp2 != nil && c2.Ver == 5 {
							if p, ok := cp2.Props.Get(refcodec.PReceiveMaximum); ok && p.Int <= 3 {
								rmLimited = "true"
							}
						}
					}
				}
				out = append(out, viol("C25", "expired-message-delivered", fmt.Sprintf("conn %d: message %q published at t=%dms with effective expiry %d s was first sent at t=%dms (%s, session %s at publish time)", c.Idx, id, pi.vt, pi.eff, pr.VT, path, held), pr.Seq,
					"path", path, "ver", verClass(c.Ver), "held", held, "rm_limited", rmLimited))
			}
			if c.Ver == 5 {
				mei, has := pr.P.Props.Get(refcodec.PMessageExpiry)
				remaining := (pi.vt/1000 + pi.eff) - pr.VT/1000
				if remaining < 1 {
					remaining = 1
				}
				if !has {
					out = append(out, viol("C25", "expiry-interval-missing", fmt.Sprintf("conn %d: message %q (effective expiry %d s) delivered at t=%dms without a Message Expiry Interval (%s)", c.Idx, id, pi.eff, pr.VT, path), pr.Seq, "path", path))
				} else if int64(mei.Int) > remaining {
					out = append(out, viol("C25", "expiry-interval-too-large", fmt.Sprintf("conn %d: message %q published t=%dms effective expiry %d s, delivered at t=%dms with Message Expiry Interval %d (remaining %d) (%s)", c.Idx, id, pi.vt, pi.eff, pr.VT, mei.Int, remaining, path), pr.Seq, "path", path))
				}
			}
		}
	}
	return out
}

func relevantC25(r *Result) (bool, []string) {
	probes := map[string]bool{}
	n := 0
	for _, c := range r.Ex.Conns {
		for _, pr := range c.Pkts {
			if pr.P.Type == refcodec.PUBLISH {
				if pr.P.Props.Has(refcodec.PMessageExpiry) {
					n++
					probes["delivered-with-expiry"] = true
				}
				if pr.P.Retain {
					probes["retained-replay"] = true
				}
				if pr.P.Dup {
					probes["resend"] = true
				}
			}
		}
	}
	for _, e := range r.H.Evs {
		if e.Kind == "hook" && (e.Str == "retained_expired" || e.Str == "qos_dropped") {
			probes[e.Str] = true
		}
	}
	var ps []string
	for p := range probes {
		ps = append(ps, p)
	}
	return n >= 1 && r.Stats.SimMs > 0, ps
}

// ---------------------------------------------------------------------------------------------------
// C17: authorisation on every route

func genC17(t *Tape) *Plan {
	k := DefaultKnobs()
	k.Slots = 4
	k.IDs = []string{"a", "b", "c", "a"}
	k.Topics = []string{"t", "u", "s/x", "$SYS/fake", "w"}
	k.Filters = []string{"t", "u", "#", "s/#", "s/x", "+"}
	k.SharedFilters = []string{"$share/g/t", "$share/g/u"}
	k.Ops = 20
	k.WConnect, k.WSub, k.WUnsub, k.WPub, k.WDisc, k.WDrop = 3, 5, 1, 8, 1, 2
	k.WillPct = 50
	k.RetainPct = 40
	k.V5Pct = 55
	k.CleanPct = 50
	k.QosW = [3]int{2, 2, 1}
	if t.Draw("c17.delayedwills", 3) == 0 {
		// the delayed will is a route of its own (parked at disconnect, published by the housekeeping tick): v5
		// sessions with an expiry, wills with a delay interval, and time passing
		k.WillDelayChoices = []uint32{0, 1, 2}
		k.ExpiryChoices = []uint32{60, 3600}
		k.WillPct = 80
		k.V5Pct = 80
		k.WAdv = 3
		k.WDrop = 4
		k.AdvMs = []int{1000, 3000}
	}
	g := NewGen(t, &k, "C17")
	cfg := &g.plan.Cfg
	GenSchedConfig(t, cfg)
	cfg.Auth = "perm"
	cfg.TopicAliasMax = 4 // inbound topic aliases are one of the routes
	cfg.Obscure = t.Draw("c17.obscure", 3) == 0
	// random permission relation
	for _, cl := range []string{"a", "b", "c"} {
		for _, tp := range append(append([]string{}, k.Topics...), k.Filters...) {
			if t.Draw("c17.denyr", 5) == 0 {
				cfg.Deny = append(cfg.Deny, DenyRule{Client: cl, Topic: tp, Write: false})
			}
		}
		for _, tp := range k.Topics {
			if t.Draw("c17.denyw", 4) == 0 {
				cfg.Deny = append(cfg.Deny, DenyRule{Client: cl, Topic: tp, Write: true})
			}
		}
	}
	if t.Draw("c17.shape", 4) == 0 {
		// alias skeleton: a publisher without write permission on T first names T together with a topic alias (that
		// publish must be refused), then publishes with the alias alone; a subscriber that may read T listens
		ids := []string{"a", "b", "c"}
		x := t.Draw("c17.pubslot", 3)
		y := (x + 1 + t.Draw("c17.subslot", 2)) % 3
		tp := []string{"t", "u", "s/x", "w"}[t.Draw("c17.aliastopic", 4)]
		var deny []DenyRule
		for _, d := range cfg.Deny {
			if (d.Client == ids[y] || d.Client == "") && !d.Write && d.Topic == tp {
				continue // the subscriber may read T
			}
			deny = append(deny, d)
		}
		cfg.Deny = append(deny, DenyRule{Client: ids[x], Topic: tp, Write: true})
		ci := g.Connect(y)
		_ = ci
		si := g.Subscribe(y)
		g.plan.Ops[si].Pkt.Filters = []refcodec.Filter{{Filter: tp, Opts: 0}}
		cx := g.Connect(x)
		g.plan.Ops[cx].Pkt.ProtoVer = 5
		g.slots[x].ver = 5
		for _, topic := range []string{tp, ""} {
			i := g.Publish(x)
			p := g.plan.Ops[i].Pkt
			p.Topic = topic
			p.Props = append(p.Props, refcodec.Prop{ID: refcodec.PTopicAlias, Int: 1})
		}
		for i := range g.plan.Ops {
			g.plan.Ops[i].Concurrent = false
		}
	}
	n := 8 + t.Draw("c17.len", 13)
	for len(g.plan.Ops) < n {
		if t.Draw("c17.special", 8) == 0 {
			// a will whose topic is not a valid topic name
			slot := t.Draw("op.slot", k.Slots)
			i := g.Connect(slot)
			if w := g.plan.Ops[i].Pkt.Will; w != nil {
				w.Topic = []string{"t/#", "+/t", "$SYS/will"}[t.Draw("c17.badwill", 3)]
			}
		} else if t.Draw("c17.alias", 6) == 0 {
			// a route of its own: the topic is named through an inbound topic alias (bound by an earlier publish on
			// the connection, which may itself have been refused)
			slot := t.Draw("op.slot", k.Slots)
			g.ensureConnected(slot)
			if g.slots[slot].ver != 5 {
				continue
			}
			i := g.Publish(slot)
			p := g.plan.Ops[i].Pkt
			p.Props = append(p.Props, refcodec.Prop{ID: refcodec.PTopicAlias, Int: uint32(1 + t.Draw("c17.aliasn", 2))})
			if t.Draw("c17.aliasonly", 2) == 1 {
				p.Topic = ""
			}
		} else {
			g.Step()
		}
	}
	g.plan.Ops[len(g.plan.Ops)-1].Concurrent = false
	return g.plan
}

func checkC17(r *Result) []Violation {
	var out []Violation
	cfg := &r.Plan.Cfg
	if cfg.Auth != "perm" {
		return nil
	}
	// who published what: payload id -> (client id, topic, kind)
	type src struct {
		client, topic, kind string
	}
	srcs := map[string]src{}
	m0 := NewModel(r)
	for i, op := range r.Plan.Ops {
		switch op.Kind {
		case "publish":
			if op.Pkt != nil && op.Pkt.Payload != "" {
				if c := m0.connOfOp(i); c != nil {
					srcs[payloadIDOf(op.Pkt.Payload)] = src{c.CID, op.Pkt.Topic, "publish"}
				}
			}
		case "connect":
			if op.Pkt != nil && op.Pkt.Will != nil {
				srcs[op.Pkt.Will.Payload] = src{op.Pkt.ClientID, op.Pkt.Will.Topic, "will"}
			}
		}
	}
	for _, c := range r.Ex.Conns {
		id := sessIDOfConn(c)
		for _, pr := range c.Pkts {
			if pr.P.Type != refcodec.PUBLISH || pr.P.Topic == "" {
				continue
			}
			route := "live"
			if pr.P.Retain {
				route = "retained"
			}
			s, known := srcs[payloadIDOf(pr.P.Payload)]
			if known && s.kind == "will" {
				route = "will"
				if pr.P.Retain {
					route = "will-retained"
				}
			}
			if denied(cfg, id, pr.P.Topic, false) {
				out = append(out, viol("C17", "delivered-despite-read-deny", fmt.Sprintf("conn %d (client %q) received %s although its read permission on %q is denied", c.Idx, id, pr.P, pr.P.Topic), pr.Seq, "route", route))
			}
			// judged on the topic it arrives on as well as on the topic the publisher named: a publish that names its
			// topic only through an alias carries an empty topic
			if known && (denied(cfg, s.client, s.topic, true) || denied(cfg, s.client, pr.P.Topic, true)) {
				origin := s.kind
				if s.kind == "publish" && s.topic == "" {
					origin = "publish-by-alias"
				}
				out = append(out, viol("C17", "routed-despite-write-deny", fmt.Sprintf("conn %d received %s: its publisher %q has no write permission on %q (%s)", c.Idx, pr.P, s.client, pr.P.Topic, origin), pr.Seq, "route", route, "origin", origin))
			}
			if known && s.kind == "publish" && strings.HasPrefix(s.topic, "$SYS") {
				out = append(out, viol("C17", "client-publish-to-sys-routed", fmt.Sprintf("conn %d received %s which a client published to a $SYS topic", c.Idx, pr.P), pr.Seq, "route", route))
			}
			if known && s.kind == "will" && (!refmatch.ValidPublishTopic(s.topic) || s.topic == "") {
				out = append(out, viol("C17", "invalid-will-topic-routed", fmt.Sprintf("conn %d received will %s whose topic %q is not a valid topic name", c.Idx, pr.P, s.topic), pr.Seq, "topic", shape(s.topic)))
			}
		}
	}
	// subscriptions to denied filters are refused
	sent := sentPackets(r)
	for _, c := range r.Ex.Conns {
		id := sessIDOfConn(c)
		for _, s := range sent[c.Idx] {
			if s.P == nil || s.P.Type != refcodec.SUBSCRIBE {
				continue
			}
			for _, pr := range c.Pkts {
				if pr.P.Type == refcodec.SUBACK && pr.P.PacketID == s.P.PacketID && pr.Seq > s.Seq {
					for i, f := range s.P.Filters {
						if i >= len(pr.P.ReasonCodes) || !denied(cfg, id, f.Filter, false) || !refmatch.ValidFilter(f.Filter) {
							continue
						}
						rc := pr.P.ReasonCodes[i]
						want := byte(0x87)
						if cfg.Obscure || c.Ver < 5 {
							want = 0x80
						}
						if rc != want {
							out = append(out, viol("C17", "denied-filter-not-refused", fmt.Sprintf("conn %d (client %q): SUBSCRIBE to denied filter %q answered 0x%02x, expected 0x%02x", c.Idx, id, f.Filter, rc, want), pr.Seq,
								"got", fmt.Sprintf("0x%02x", rc), "ver", verClass(c.Ver), "obscure", fmt.Sprint(cfg.Obscure)))
						}
					}
					break
				}
			}
		}
	}
	// the retained store never holds a message whose publisher may not write the topic
	for _, e := range r.H.Evs {
		if e.Kind == "hook" && e.Str == "retain" && e.N == 1 {
			topic, payload := splitHookStr(e.Str2)
			if s, ok := srcs[payload]; ok && (denied(cfg, s.client, s.topic, true) || denied(cfg, s.client, topic, true)) { // the topic it was retained on: an alias-only publish names none itself
				out = append(out, viol("C17", "retained-despite-write-deny", fmt.Sprintf("message %q from %q retained on %q although its write permission is denied (%s)", payload, s.client, topic, s.kind), e.Seq, "origin", s.kind))
			}
		}
	}
	return out
}

func relevantC17(r *Result) (bool, []string) {
	probes := map[string]bool{}
	for _, e := range r.H.Evs {
		if e.Kind == "pkt" && e.Pkt != nil && e.Pkt.Type == refcodec.SUBACK {
			for _, rc := range e.Pkt.ReasonCodes {
				if rc >= 0x80 {
					probes["suback-refused"] = true
				}
			}
		}
		if e.Kind == "hook" && e.Str == "will_sent" {
			probes["will-sent"] = true
		}
		if e.Kind == "pkt" && e.Pkt != nil && e.Pkt.Type == refcodec.PUBLISH {
			probes["delivery"] = true
			if e.Pkt.Retain {
				probes["retained-delivery"] = true
			}
		}
	}
	var ps []string
	for p := range probes {
		ps = append(ps, p)
	}
	return len(r.Plan.Cfg.Deny) > 0 && probes["delivery"], ps
}

// ---------------------------------------------------------------------------------------------------
// C30: filter / topic-name validation on the wire

var c30Tokens = []string{"/", "+", "#", "$", "a", "share", "b"}

func genC30String(t *Tape) string {
	if t.Draw("c30.canned", 4) == 0 {
		return []string{"$share/g/a", "$share//a", "$share/g/", "$share/g", "$share/g+/a", "$share/g/#", "a/b#", "a+", "+a/b", "a/#/b", "#/a", "a/+/#", "$share/#/a", "", "$SYS/#", "/", "//", "a//", "+/+", "$share/g/+/a"}[t.Draw("c30.which", 20)]
	}
	n := 1 + t.Draw("c30.ntok", 6)
	s := ""
	for i := 0; i < n; i++ {
		s += c30Tokens[t.Draw("c30.tok", len(c30Tokens))]
	}
	return s
}

func genC30(t *Tape) *Plan {
	k := DefaultKnobs()
	k.Slots = 3
	k.CleanPct = 100
	k.V5Pct = 60
	g := NewGen(t, &k, "C30")
	cfg := &g.plan.Cfg
	GenSchedConfig(t, cfg)
	cfg.TopicAliasMax = 4
	// compatibility options that touch reason codes must not change how invalid filters are answered
	cfg.Obscure = t.Draw("c30.obscure", 3) == 0
	for s := 0; s < k.Slots; s++ {
		g.Connect(s)
	}
	// observer for routed publishes
	g.plan.Ops = append(g.plan.Ops, Op{Kind: "connect", Slot: 9, Pkt: &refcodec.Packet{Type: refcodec.CONNECT, ProtoVer: 5, ClientID: "obs", CleanStart: true}, Note: "observer"})
	g.plan.Ops = append(g.plan.Ops, Op{Kind: "subscribe", Slot: 9, Pkt: &refcodec.Packet{Type: refcodec.SUBSCRIBE, PacketID: 1, Filters: []refcodec.Filter{{Filter: "#", Opts: 0}}}, Note: "observer"})
	g.plan.Ops = append(g.plan.Ops, Op{Kind: "subscribe", Slot: 9, Pkt: &refcodec.Packet{Type: refcodec.SUBSCRIBE, PacketID: 2, Filters: []refcodec.Filter{{Filter: "$/#", Opts: 0}, {Filter: "$a/#", Opts: 0}, {Filter: "$share", Opts: 0}, {Filter: "$b/#", Opts: 0}, {Filter: "$SYS/#", Opts: 0}}}, Note: "observer"})
	n := 8 + t.Draw("c30.len", 10)
	for len(g.plan.Ops) < n {
		slot := t.Draw("op.slot", k.Slots)
		s := g.slots[slot]
		g.ensureConnected(slot)
		str := genC30String(t)
		if t.Draw("c30.kind", 3) > 0 {
			nf := 1 + t.Draw("c30.nf", 2)
			p := &refcodec.Packet{Type: refcodec.SUBSCRIBE, PacketID: g.pid(slot)}
			for i := 0; i < nf; i++ {
				if i > 0 {
					str = genC30String(t)
				}
				if !refcodec.ValidUTF8(str) {
					str = "a"
				}
				p.Filters = append(p.Filters, refcodec.Filter{Filter: str, Opts: byte(t.Draw("c30.qos", 3))})
			}
			_ = s
			g.add(Op{Kind: "subscribe", Slot: slot, Pkt: p})
		} else {
			opIdx := len(g.plan.Ops)
			p := &refcodec.Packet{Type: refcodec.PUBLISH, Topic: str, Payload: fmt.Sprintf("m%d", opIdx)}
			if s.ver == 5 && t.Draw("c30.alias", 3) == 0 {
				// the topic may also be named through an inbound alias: bound here, used alone by the next publish
				if t.Draw("c30.aliastopic", 2) == 0 {
					p.Topic = []string{"$SYS/x", "$SYS", "$SYS/broker/uptime", "a/b", "$x/y"}[t.Draw("c30.aliaswhich", 5)]
				}
				p.Props = append(p.Props, refcodec.Prop{ID: refcodec.PTopicAlias, Int: 1})
				g.add(Op{Kind: "publish", Slot: slot, Pkt: p})
				opIdx = len(g.plan.Ops)
				p = &refcodec.Packet{Type: refcodec.PUBLISH, Topic: "", Payload: fmt.Sprintf("m%d", opIdx), Props: refcodec.Props{{ID: refcodec.PTopicAlias, Int: 1}}}
			}
			g.add(Op{Kind: "publish", Slot: slot, Pkt: p})
		}
	}
	g.plan.Ops[len(g.plan.Ops)-1].Concurrent = false
	return g.plan
}

func checkC30(r *Result) []Violation {
	var out []Violation
	sent := sentPackets(r)
	var obs *Conn
	for _, c := range r.Ex.Conns {
		if r.Plan.Ops[c.ConnectOp].Note == "observer" {
			obs = c
		}
	}
	aliasBound := map[int]map[uint32]string{} // per connection: inbound topic alias -> topic last bound to it
	for _, c := range r.Ex.Conns {
		if c == obs {
			continue
		}
		for _, s := range sent[c.Idx] {
			if s.P == nil || s.Op < 0 {
				continue
			}
			switch s.P.Type {
			case refcodec.SUBSCRIBE:
				q := firstQuiesceAfter(r.H, s.Seq)
				var ack *PktRec
				for _, pr := range c.Pkts {
					if pr.P.Type == refcodec.SUBACK && pr.P.PacketID == s.P.PacketID && pr.Seq > s.Seq {
						ack = pr
						break
					}
				}
				if ack == nil {
					continue
				}
				p0, p1 := probeBefore(r, s.Seq), probeAt(r, q)
				anyValid := false
				for i, f := range s.P.Filters {
					if i >= len(ack.P.ReasonCodes) {
						break
					}
					valid := refmatch.ValidFilter(f.Filter)
					if _, _, sh := refmatch.SplitShare(f.Filter); sh && f.NoLocal() {
						continue
					}
					rc := ack.P.ReasonCodes[i]
					if valid {
						anyValid = true
					}
					if valid && rc >= 0x80 {
						out = append(out, viol("C30", "valid-filter-refused", fmt.Sprintf("conn %d: valid filter %q refused with 0x%02x", c.Idx, f.Filter, rc), ack.Seq, "shape", shape(f.Filter), "code", fmt.Sprintf("0x%02x", rc)))
					}
					if !valid && rc < 0x80 {
						out = append(out, viol("C30", "invalid-filter-accepted", fmt.Sprintf("conn %d: invalid filter %q accepted (granted 0x%02x)", c.Idx, f.Filter, rc), ack.Seq, "shape", shape(f.Filter)))
					}
					if !valid && rc >= 0x80 {
						want := byte(0x8F)
						if c.Ver < 5 {
							want = 0x80
						}
						if rc != want {
							out = append(out, viol("C30", "invalid-filter-code", fmt.Sprintf("conn %d (v%d): invalid filter %q answered 0x%02x, expected 0x%02x", c.Idx, c.Ver, f.Filter, rc, want), ack.Seq, "ver", verClass(c.Ver), "got", fmt.Sprintf("0x%02x", rc)))
						}
					}
				}
				// "creates nothing": a SUBSCRIBE whose filters are all invalid leaves the subscription count unchanged
				if !anyValid && p0 != nil && p1 != nil {
					w := winContaining(r, s.Seq)
					if w != nil && len(w.Ops) == 1 && (p1.ActClientSubs+p1.ActSharedSubs != p0.ActClientSubs+p0.ActSharedSubs || p1.Subscriptions != p0.Subscriptions) {
						out = append(out, viol("C30", "invalid-subscription-created-state", fmt.Sprintf("conn %d: SUBSCRIBE with only invalid filters %v changed the subscription count (index %d->%d, $SYS counter %d->%d)", c.Idx, s.P.Filters, p0.ActClientSubs+p0.ActSharedSubs, p1.ActClientSubs+p1.ActSharedSubs, p0.Subscriptions, p1.Subscriptions), q))
					}
				}
			case refcodec.PUBLISH:
				if obs == nil || s.P.Payload == "" {
					continue
				}
				// the topic the publish means: its own, or the one last bound to its alias on this connection
				topic := s.P.Topic
				if ap, has := s.P.Props.Get(refcodec.PTopicAlias); has {
					if topic == "" {
						topic = aliasBound[c.Idx][ap.Int]
					} else {
						if aliasBound[c.Idx] == nil {
							aliasBound[c.Idx] = map[uint32]string{}
						}
						aliasBound[c.Idx][ap.Int] = topic
					}
				}
				s = SentRec{P: &refcodec.Packet{Type: refcodec.PUBLISH, Topic: topic, Payload: s.P.Payload}, Seq: s.Seq, Op: s.Op}
				valid := s.P.Topic != "" && refmatch.ValidPublishTopic(s.P.Topic)
				routed := false
				for _, pr := range obs.Pkts {
					if pr.P.Type == refcodec.PUBLISH && payloadIDOf(pr.P.Payload) == payloadIDOf(s.P.Payload) {
						routed = true
						if pr.P.Topic != "" && !refmatch.ValidPublishTopic(pr.P.Topic) {
							valid = false // whatever the publisher wrote, it arrived on a topic clients may not publish to
							s.P.Topic = pr.P.Topic
						}
					}
				}
				// the observer can only see topics its filters match
				visible := refmatch.Match("#", s.P.Topic) || refmatch.Match("$/#", s.P.Topic) || refmatch.Match("$a/#", s.P.Topic) || refmatch.Match("$b/#", s.P.Topic) || refmatch.Match("$share", s.P.Topic) || refmatch.Match("$SYS/#", s.P.Topic)
				if !valid && routed {
					out = append(out, viol("C30", "invalid-topic-routed", fmt.Sprintf("conn %d: publish to invalid topic %q was routed", c.Idx, s.P.Topic), s.Seq, "shape", shape(s.P.Topic)))
				}
				if valid && !routed && visible && brokerCloseSeq(r.H, c.Idx) < 0 && strings.Count(s.P.Topic, "$") <= 1 {
					q := firstQuiesceAfter(r.H, s.Seq)
					if q >= 0 && !strings.HasPrefix(strings.ToUpper(s.P.Topic), "$SHARE") {
						out = append(out, viol("C30", "valid-topic-not-routed", fmt.Sprintf("conn %d: publish to valid topic %q was not routed to the observer", c.Idx, s.P.Topic), s.Seq, "shape", shape(s.P.Topic)))
					}
				}
			}
		}
	}
	return out
}

func winContaining(r *Result, seq int) *Window {
	ws := BuildWindows(r)
	for i := range ws {
		if seq >= ws[i].StartSeq && seq <= ws[i].EndSeq {
			return &ws[i]
		}
	}
	return nil
}

func relevantC30(r *Result) (bool, []string) {
	probes := map[string]bool{}
	n := 0
	for _, op := range r.Plan.Ops {
		if op.Note == "observer" || op.Pkt == nil {
			continue
		}
		if op.Kind == "subscribe" {
			for _, f := range op.Pkt.Filters {
				n++
				probes[fmt.Sprintf("filter-valid-%v", refmatch.ValidFilter(f.Filter))] = true
				probes["filter-"+shape(f.Filter)] = true
			}
		}
		if op.Kind == "publish" {
			n++
			probes[fmt.Sprintf("topic-valid-%v", refmatch.ValidPublishTopic(op.Pkt.Topic))] = true
		}
	}
	var ps []string
	for p := range probes {
		ps = append(ps, p)
	}
	sort.Strings(ps)
	return n >= 3, ps
}

func init() {
	register(&Profile{Name: "C25", Gen: genC25, Check: checkC25, Relevant: relevantC25})
	register(&Profile{Name: "C17", Gen: genC17, Check: checkC17, Relevant: relevantC17})
	register(&Profile{Name: "C30", Gen: genC30, Check: checkC30, Relevant: relevantC30})
}
