package harness

import (
	"fmt"
	"sort"
	"strings"

	"verifharness/refcodec"
)

// ---------------------------------------------------------------------------------------------------
// C42: every permitted encoding decodes as the sender meant

func permFor(t *Tape, n int) []int {
	if n < 2 {
		return nil
	}
	p := make([]int, n)
	for i := range p {
		p[i] = i
	}
	for i := 0; i < n-1; i++ {
		k := i + t.Draw("enc.perm", n-i)
		p[i], p[k] = p[k], p[i]
	}
	return p
}

func genC42(t *Tape) *Plan {
	k := DefaultKnobs()
	k.Slots = 3
	k.IDs = []string{"a", "b", "c"}
	k.Topics = []string{"t", "u"}
	k.Filters = []string{"t", "#"}
	k.V5Pct = 85
	k.CleanPct = 70
	k.ManualAckPct = 100
	k.WillPct = 30
	k.PropsPct = 70
	k.SubIDPct = 60
	k.QosW = [3]int{1, 3, 3}
	k.SubQosW = [3]int{0, 2, 2}
	k.MsgExpiryChoices = []uint32{0, 30}
	g := NewGen(t, &k, "C42")
	cfg := &g.plan.Cfg
	GenSchedConfig(t, cfg)
	cfg.TopicAliasMax = 5
	n := 8 + t.Draw("c42.len", 12)
	for len(g.plan.Ops) < n {
		slot := t.Draw("op.slot", k.Slots)
		s := g.slots[slot]
		switch t.Pick("c42.kind", []int{2, 3, 5, 6, 2, 2, 1}) {
		case 0:
			i := g.Connect(slot)
			p := g.plan.Ops[i].Pkt
			if p.ProtoVer == 5 {
				p.Props = append(p.Props, refcodec.Prop{ID: refcodec.PUserProperty, Key: "ck", Str: "cv"}, refcodec.Prop{ID: refcodec.PRequestResponse, Int: 1})
			}
		case 1:
			i := g.Subscribe(slot)
			p := g.plan.Ops[i].Pkt
			if s.ver == 5 {
				p.Props = append(p.Props, refcodec.Prop{ID: refcodec.PUserProperty, Key: "sk", Str: "sv"})
			}
		case 2:
			g.Publish(slot)
		case 3: // acknowledgements in every permitted form
			g.ensureConnected(slot)
			op := Op{Kind: "ack", Slot: slot, N: t.Draw("ack.which", 3)}
			if s.ver == 5 && t.Draw("c42.ackprops", 3) == 0 {
				op.Pkt = &refcodec.Packet{}
			}
			if s.ver == 5 && t.Draw("c42.ackrc", 3) == 0 {
				// a refusing acknowledgement (0x80 unspecified error / 0x87 not authorised; a PUBCOMP gets 0x92 instead):
				// with no properties its shortest form is three bytes, packet identifier and reason code
				op.Pkt = &refcodec.Packet{ReasonCode: []byte{0x80, 0x87}[t.Draw("c42.ackrc.which", 2)]}
			}
			g.add(op)
		case 4:
			if s.connected {
				p := &refcodec.Packet{Type: refcodec.DISCONNECT}
				if s.ver == 5 {
					switch t.Draw("c42.disc", 4) {
					case 1:
						p.ReasonCode = 0x04
					case 2:
						p.Props = refcodec.Props{{ID: refcodec.PReasonString, Str: "bye"}, {ID: refcodec.PUserProperty, Key: "dk", Str: "dv"}, {ID: refcodec.PSessionExpiry, Int: 0}}
					case 3:
						p.ReasonCode = 0x04
						p.Props = refcodec.Props{{ID: refcodec.PUserProperty, Key: "dk", Str: "dv"}}
					}
				}
				g.add(Op{Kind: "disconnect", Slot: slot, Pkt: p})
				g.plan.Ops = append(g.plan.Ops, Op{Kind: "close", Slot: slot})
				s.connected = false
			}
		case 5:
			g.ensureConnected(slot)
			if s.ver == 5 {
				p := &refcodec.Packet{Type: refcodec.UNSUBSCRIBE, PacketID: g.pid(slot), Filters: []refcodec.Filter{{Filter: pickStr(t, "unsub.filter", k.Filters)}},
					Props: refcodec.Props{{ID: refcodec.PUserProperty, Key: "uk", Str: "uv"}, {ID: refcodec.PUserProperty, Key: "uk2", Str: "uv2"}}}
				g.add(Op{Kind: "unsubscribe", Slot: slot, Pkt: p})
			} else {
				g.Unsubscribe(slot)
			}
		case 6:
			g.ensureConnected(slot)
			if s.ver == 5 {
				p := &refcodec.Packet{Type: refcodec.AUTH}
				if t.Draw("c42.auth", 2) == 1 {
					p.ReasonCode = 0x18
					p.Props = refcodec.Props{{ID: refcodec.PAuthMethod, Str: "m"}, {ID: refcodec.PAuthData, Str: "d"}}
				}
				g.add(Op{Kind: "auth", Slot: slot, Pkt: p})
			}
		}
	}
	// encoding variants for every packet op
	for i := range g.plan.Ops {
		op := &g.plan.Ops[i]
		op.Enc.Short = t.Draw("enc.short", 3)
		if op.Pkt != nil && len(op.Pkt.Props) > 1 {
			op.Enc.PropPerm = permFor(t, len(op.Pkt.Props))
		}
	}
	g.plan.Ops[len(g.plan.Ops)-1].Concurrent = false
	return g.plan
}

func propsEqualRead(p *refcodec.Packet, rd *ReadPkt) (bool, string) {
	if rs, ok := p.Props.Get(refcodec.PReasonString); ok && rd.Reason != rs.Str {
		return false, "reason-string"
	}
	var us []string
	for _, u := range p.Props.All(refcodec.PUserProperty) {
		us = append(us, u.Key+"="+u.Str)
	}
	if fmt.Sprint(us) != fmt.Sprint(rd.User) && !(len(us) == 0 && len(rd.User) == 0) {
		return false, "user-properties"
	}
	if se, ok := p.Props.Get(refcodec.PSessionExpiry); ok {
		if rd.SessExp != int64(se.Int) {
			return false, "session-expiry"
		}
	} else if rd.SessExp >= 0 && p.Type != refcodec.CONNECT {
		return false, "session-expiry"
	}
	if me, ok := p.Props.Get(refcodec.PMessageExpiry); ok && rd.MsgExp != int64(me.Int) {
		return false, "message-expiry"
	}
	if ct, ok := p.Props.Get(refcodec.PContentType); ok && rd.ContentType != ct.Str {
		return false, "content-type"
	}
	if x, ok := p.Props.Get(refcodec.PResponseTopic); ok && rd.RespTopic != x.Str {
		return false, "response-topic"
	}
	if x, ok := p.Props.Get(refcodec.PCorrelationData); ok && rd.Corr != x.Str {
		return false, "correlation-data"
	}
	if x, ok := p.Props.Get(refcodec.PSubscriptionID); ok && rd.SubID != int(x.Int) {
		return false, "subscription-identifier"
	}
	if x, ok := p.Props.Get(refcodec.PAuthMethod); ok && rd.AuthMethod != x.Str {
		return false, "auth-method"
	}
	if x, ok := p.Props.Get(refcodec.PAuthData); ok && rd.AuthData != x.Str {
		return false, "auth-data"
	}
	return true, ""
}

func checkC42(r *Result) []Violation {
	var out []Violation
	sent := sentPackets(r)
	for _, c := range r.Ex.Conns {
		if !verOK(c, r) {
			continue
		}
		var reads []*Ev
		for _, e := range r.H.Evs {
			if e.Kind == "hook" && e.Str == "read" && e.Conn == c.Idx {
				reads = append(reads, e)
			}
		}
		for i, s := range sent[c.Idx] {
			p := s.P
			if p == nil {
				break
			}
			form := "full"
			if s.Op >= 0 {
				switch r.Plan.Ops[s.Op].Enc.Short {
				case 0:
					form = "shortest"
				case 1:
					form = "reason-only"
				}
			} else {
				form = "shortest"
			}
			permuted := s.Op >= 0 && len(r.Plan.Ops[s.Op].Enc.PropPerm) > 0
			tn := refcodec.TypeNames[p.Type]
			if i >= len(reads) {
				// not decoded at all: the broker must at least not have kept serving a connection whose packet it dropped
				q := firstQuiesceAfter(r.H, s.Seq)
				if q >= 0 && p.Type != refcodec.CONNECT {
					out = append(out, viol("C42", "valid-encoding-rejected", fmt.Sprintf("conn %d (v%d): %s encoded in its %s form (properties permuted: %v) was not decoded by the broker", c.Idx, c.Ver, p, form, permuted), s.Seq,
						"type", tn, "form", form, "rc", fmt.Sprintf("0x%02x", p.ReasonCode), "props", fmt.Sprint(len(p.Props) > 0)))
				}
				break
			}
			rd := reads[i].Read
			bad := ""
			switch {
			case rd.Type != p.Type:
				bad = "type"
			case p.Type != refcodec.CONNECT && rd.PID != p.PacketID && (p.Type != refcodec.PUBLISH || p.Qos > 0):
				bad = "packet-id"
			case rd.RC != p.ReasonCode && p.Type != refcodec.CONNECT:
				bad = "reason-code"
			case p.Type == refcodec.PUBLISH && (rd.Topic != p.Topic || rd.Payload != p.Payload || rd.Qos != p.Qos || rd.Retain != p.Retain || rd.Dup != p.Dup):
				bad = "publish-fields"
			}
			if bad == "" && (p.Type == refcodec.SUBSCRIBE || p.Type == refcodec.UNSUBSCRIBE) {
				if len(rd.Filters) != len(p.Filters) {
					bad = "filter-count"
				} else {
					for k, f := range p.Filters {
						if rd.Filters[k] != f.Filter || (p.Type == refcodec.SUBSCRIBE && c.Ver == 5 && rd.Opts[k] != f.Opts) || (p.Type == refcodec.SUBSCRIBE && c.Ver < 5 && rd.Opts[k]&3 != f.Opts&3) {
							bad = "filter-or-options"
						}
					}
				}
			}
			if bad == "" && c.Ver == 5 && p.Type != refcodec.CONNECT {
				// user properties keep their order on the wire: compare in the order they were written
				wp := *p
				if s.Op >= 0 {
					if perm := r.Plan.Ops[s.Op].Enc.PropPerm; len(perm) == len(p.Props) && len(perm) > 0 {
						w := make(refcodec.Props, len(p.Props))
						okPerm := true
						seenPos := map[int]bool{}
						for i, pos := range perm {
							if pos < 0 || pos >= len(w) || seenPos[pos] {
								okPerm = false
								break
							}
							seenPos[pos] = true
							w[pos] = p.Props[i]
						}
						if okPerm {
							wp.Props = w
						}
					}
				}
				if ok, which := propsEqualRead(&wp, rd); !ok {
					bad = "property:" + which
				}
			}
			if bad != "" {
				out = append(out, viol("C42", "decoded-differently", fmt.Sprintf("conn %d (v%d): sent %s in its %s form (permuted %v); broker decoded type=%d pid=%d rc=0x%02x topic=%q (%s differs)", c.Idx, c.Ver, p, form, permuted, rd.Type, rd.PID, rd.RC, rd.Topic, bad), s.Seq,
					"type", tn, "form", form, "differs", bad))
				break
			}
		}
	}
	return out
}

func relevantC42(r *Result) (bool, []string) {
	probes := map[string]bool{}
	for _, op := range r.Plan.Ops {
		if op.Pkt != nil {
			probes[fmt.Sprintf("%s-short%d-perm%v", refcodec.TypeNames[op.Pkt.Type], op.Enc.Short, len(op.Enc.PropPerm) > 0)] = true
		}
	}
	var ps []string
	for p := range probes {
		ps = append(ps, p)
	}
	sort.Strings(ps)
	return len(ps) > 3, ps
}

// ---------------------------------------------------------------------------------------------------
// C27 / C28: malformed and hostile streams

func mutate(t *Tape, b []byte) ([]byte, string) {
	if len(b) < 2 {
		return b, "none"
	}
	out := append([]byte(nil), b...)
	// locate the body (after the remaining-length varint)
	hl := 1
	for hl < len(out) && out[hl]&0x80 != 0 {
		hl++
	}
	hl++
	body := len(out) - hl
	switch t.Draw("mut.kind", 8) {
	case 0: // truncate the body but keep the declared inner lengths (fix the remaining length)
		if body < 1 {
			return out, "none"
		}
		keep := t.Draw("mut.keep", body)
		nb := append([]byte{out[0]}, putVarintH(uint32(keep))...)
		nb = append(nb, out[hl:hl+keep]...)
		return nb, "truncate-body"
	case 1: // bump a 16-bit length field somewhere in the body
		if body < 2 {
			return out, "none"
		}
		k := hl + t.Draw("mut.pos", body-1)
		out[k] = byte(t.Draw("mut.hi", 3))
		out[k+1] = byte(200 + t.Draw("mut.lo", 56))
		return out, "length-field"
	case 2: // flip a bit
		k := t.Draw("mut.pos", len(out))
		out[k] ^= 1 << uint(t.Draw("mut.bit", 8))
		return out, "bit-flip"
	case 3: // declared remaining length larger than what follows, then more garbage
		nb := append([]byte{out[0]}, putVarintH(uint32(body+1+t.Draw("mut.extra", 40)))...)
		nb = append(nb, out[hl:]...)
		return nb, "remaining-length-over"
	case 4: // overlong varint as remaining length
		nb := append([]byte{out[0], 0xff, 0xff, 0xff, 0xff, 0x7f}, out[hl:]...)
		return nb, "overlong-varint"
	case 5: // drop the last byte (e.g. a SUBSCRIBE filter without its options byte)
		if body < 1 {
			return out, "none"
		}
		nb := append([]byte{out[0]}, putVarintH(uint32(body-1))...)
		nb = append(nb, out[hl:len(out)-1]...)
		return nb, "drop-last-byte"
	case 6: // random bytes
		n := 1 + t.Draw("mut.n", 24)
		nb := make([]byte, n)
		for i := range nb {
			nb[i] = byte(t.Draw("mut.byte", 256))
		}
		return nb, "random"
	default: // reserved flag bits
		out[0] ^= byte(1 + t.Draw("mut.flags", 15))
		return out, "header-flags"
	}
}

// propsCut re-encodes a v5 packet so that its body ends k bytes into the property block while the property
// length still declares the whole block (the remaining length is consistent with the cut): a declared
// length exceeding the available bytes, which no decoder may accept.
func propsCut(t *Tape, p *refcodec.Packet, ver byte) ([]byte, bool) {
	if ver != 5 || len(p.Props) == 0 {
		return nil, false
	}
	full := refcodec.Encode(p, ver, refcodec.EncOpts{})
	q := *p
	q.Props = nil
	bare := refcodec.Encode(&q, ver, refcodec.EncOpts{})
	f1, fb, _, err1 := refcodec.Frame(full)
	_, bb, _, err2 := refcodec.Frame(bare)
	if err1 != nil || err2 != nil {
		return nil, false
	}
	pos := 0
	for pos < len(fb) && pos < len(bb) && fb[pos] == bb[pos] {
		pos++
	}
	if pos >= len(fb) || pos >= len(bb) || bb[pos] != 0 || fb[pos]&0x80 != 0 {
		return nil, false // (property blocks of 128 bytes and more are not generated here)
	}
	l := int(fb[pos])
	if l < 2 || pos+1+l > len(fb) {
		return nil, false
	}
	k := t.Draw("mut.propscut", l) // 0..l-1 of the l declared property bytes are present
	nb := append([]byte(nil), fb[:pos+1+k]...)
	out := append([]byte{f1}, putVarintH(uint32(len(nb)))...)
	return append(out, nb...), true
}

func putVarintH(v uint32) []byte {
	var b []byte
	for {
		d := byte(v % 128)
		v /= 128
		if v > 0 {
			d |= 0x80
		}
		b = append(b, d)
		if v == 0 {
			return b
		}
	}
}

func genHostile(t *Tape, name string) *Plan {
	k := DefaultKnobs()
	k.Slots = 3 // slot 0: hostile, 1/2: reference pair
	k.IDs = []string{"h", "r1", "r2"}
	k.Topics = []string{"t"}
	k.Filters = []string{"t", "#"}
	k.V5Pct = 60
	k.CleanPct = 100
	k.QosW = [3]int{2, 2, 2}
	k.SubQosW = [3]int{1, 2, 2}
	// a client may announce a Maximum Packet Size of its own (for what the broker sends to it): one far above the
	// broker's limit must not change what the broker accepts
	k.MaxPktChoices = []uint32{0, 100000}
	g := NewGen(t, &k, name)
	cfg := &g.plan.Cfg
	GenSchedConfig(t, cfg)
	cfg.ChunkPct = []int{0, 30, 70}[t.Draw("hostile.chunk", 3)]
	cfg.MaxPacketSize = []uint32{0, 64, 256}[t.Draw("hostile.maxpkt", 3)]
	cfg.TopicAliasMax = 3
	// reference pair
	g.Connect(1)
	g.Subscribe(1)
	g.Connect(2)
	n := 8 + t.Draw("hostile.len", 12)
	for len(g.plan.Ops) < n {
		switch t.Pick("hostile.kind", []int{5, 3, 2, 1}) {
		case 0: // hostile packet: a mutated version of a valid packet
			s := g.slots[0]
			if !s.connected {
				if t.Draw("hostile.badconnect", 4) == 0 {
					cp := &refcodec.Packet{Type: refcodec.CONNECT, ProtoVer: byte(4 + t.Draw("hostile.ver", 2)), ClientID: "h", CleanStart: true}
					raw, kind := mutate(t, refcodec.Encode(cp, cp.ProtoVer, refcodec.EncOpts{}))
					g.plan.Ops = append(g.plan.Ops, Op{Kind: "connect", Slot: 0, Raw: raw, Note: "mut:" + kind})
					s.connected = true
					s.ver = cp.ProtoVer
					continue
				}
				g.Connect(0)
				continue
			}
			var p *refcodec.Packet
			switch t.Draw("hostile.pkt", 7) {
			case 0:
				p = &refcodec.Packet{Type: refcodec.SUBSCRIBE, PacketID: g.pid(0), Filters: []refcodec.Filter{{Filter: "t/#", Opts: 1}, {Filter: "h", Opts: 0}}}
				if s.ver == 5 {
					p.Props = refcodec.Props{{ID: refcodec.PSubscriptionID, Int: 7}, {ID: refcodec.PUserProperty, Key: "a", Str: "b"}}
					if t.Draw("hostile.subidlast", 2) == 1 {
						p.Props = refcodec.Props{{ID: refcodec.PUserProperty, Key: "a", Str: "b"}, {ID: refcodec.PSubscriptionID, Int: uint32([]int{7, 200}[t.Draw("hostile.subidval", 2)])}}
					}
				}
			case 1:
				p = &refcodec.Packet{Type: refcodec.PUBLISH, Topic: "t", Qos: byte(t.Draw("hostile.qos", 3)), Payload: fmt.Sprintf("h%d", len(g.plan.Ops)), PacketID: g.pid(0)}
				if s.ver == 5 {
					p.Props = refcodec.Props{{ID: refcodec.PContentType, Str: "x"}, {ID: refcodec.PTopicAlias, Int: uint32(1 + t.Draw("hostile.alias", 3))}, {ID: refcodec.PUserProperty, Key: "a", Str: "b"}}
					if t.Draw("hostile.subidlast", 2) == 1 { // (the decoder admits the property on PUBLISH in both directions)
						p.Props = append(p.Props, refcodec.Prop{ID: refcodec.PSubscriptionID, Int: uint32([]int{7, 200}[t.Draw("hostile.subidval", 2)])})
					}
				}
			case 2:
				p = &refcodec.Packet{Type: refcodec.UNSUBSCRIBE, PacketID: g.pid(0), Filters: []refcodec.Filter{{Filter: "t/#"}}}
			case 3:
				p = &refcodec.Packet{Type: byte(refcodec.PUBACK + t.Draw("hostile.ack", 4)), PacketID: uint16(1 + t.Draw("hostile.pid", 3)), ReasonCode: byte(t.Draw("hostile.rc", 2) * 0x92)}
				if s.ver == 5 && p.ReasonCode == 0 {
					p.Props = refcodec.Props{{ID: refcodec.PReasonString, Str: "r"}}
				}
			case 4:
				p = &refcodec.Packet{Type: refcodec.DISCONNECT, ReasonCode: 0}
				if s.ver == 5 {
					p.Props = refcodec.Props{{ID: refcodec.PSessionExpiry, Int: 5}}
				}
			case 5:
				p = &refcodec.Packet{Type: refcodec.AUTH, ReasonCode: 0x18, Props: refcodec.Props{{ID: refcodec.PAuthMethod, Str: "m"}}}
			case 6:
				p = &refcodec.Packet{Type: refcodec.PINGREQ}
			}
			var raw []byte
			var kind string
			if s.ver == 5 && len(p.Props) > 0 && t.Draw("hostile.propscut", 4) == 0 {
				if b, ok := propsCut(t, p, s.ver); ok {
					raw, kind = b, "props-cut"
				}
			}
			if raw == nil {
				raw, kind = mutate(t, refcodec.Encode(p, s.ver, refcodec.EncOpts{}))
			}
			note := "mut:" + kind + ":" + refcodec.TypeNames[p.Type]
			if p.Type == refcodec.PUBLISH {
				note += ":" + p.Payload
			}
			g.add(Op{Kind: "raw", Slot: 0, Raw: raw, Note: note})
			if t.Draw("hostile.reconnect", 3) == 0 {
				s.connected = false
			}
		case 1: // reference traffic
			g.Publish(2)
		case 2:
			g.Publish(1)
		case 3: // oversize fixed header with no body
			s := g.slots[0]
			if s.connected && cfg.MaxPacketSize > 0 {
				hdr := append([]byte{0x30}, putVarintH(uint32(cfg.MaxPacketSize)+uint32(1+t.Draw("hostile.over", 5000)))...)
				g.add(Op{Kind: "raw", Slot: 0, Raw: hdr, Note: "oversize-header"})
				s.connected = false
			}
		}
	}
	// the broker must still serve: reference publish + a fresh probe client
	g.Publish(2)
	g.plan.Ops[len(g.plan.Ops)-1].Concurrent = false
	g.plan.Ops = append(g.plan.Ops, Op{Kind: "connect", Slot: 9, Pkt: &refcodec.Packet{Type: refcodec.CONNECT, ProtoVer: 4, ClientID: "probe", CleanStart: true}, Note: "probe"})
	g.plan.Ops = append(g.plan.Ops, Op{Kind: "ping", Slot: 9, Pkt: &refcodec.Packet{Type: refcodec.PINGREQ}, Note: "probe"})
	return g.plan
}

func genC27(t *Tape) *Plan { return genHostile(t, "C27") }
func genC28(t *Tape) *Plan { return genHostile(t, "C28") }

func checkHostile(r *Result, prop string) []Violation {
	var out []Violation
	hostile := map[int]bool{}
	for _, c := range r.Ex.Conns {
		if c.Slot == 0 {
			hostile[c.Idx] = true
		}
	}
	if len(r.Ex.Panics) > 0 {
		return nil // reported by the universal panic check
	}
	// the process keeps serving
	if r.Ex.Deadlock == nil && !r.Stats.Truncated {
		for _, c := range r.Ex.Conns {
			if r.Plan.Ops[c.ConnectOp].Note != "probe" {
				continue
			}
			okA, okP := false, false
			for _, pr := range c.Pkts {
				if pr.P.Type == refcodec.CONNACK && pr.P.ReasonCode == 0 {
					okA = true
				}
				if pr.P.Type == refcodec.PINGRESP {
					okP = true
				}
			}
			if !okA || !okP {
				out = append(out, viol(prop, "broker-stopped-serving", "after the hostile stream a fresh client was not served (CONNACK/PINGRESP missing)", -1))
			}
		}
	}
	if prop == "C28" {
		// well-behaved bystanders keep receiving correct service
		for _, v := range checkC07(r) {
			if strings.Contains(v.Detail, "conn ") {
				var idx int
				fmt.Sscanf(v.Detail, "conn %d", &idx)
				if hostile[idx] {
					continue
				}
			}
			v.Property, v.Class = "C28", "bystander-"+v.Class
			out = append(out, v)
		}
		for _, v := range checkDelivery(r, "C03") {
			if v.Class == "missing-delivery" || v.Class == "duplicate-delivery" || v.Class == "payload-changed" {
				if strings.Contains(v.Detail, `session "h"`) {
					continue
				}
				// publishes made by the hostile connection are not reference traffic
				if strings.Contains(v.Detail, `"h`) {
					continue
				}
				v.Property, v.Class = "C28", "bystander-"+v.Class
				out = append(out, v)
			}
		}
		// a fixed header announcing more than the configured maximum is refused before any body arrives
		for i, op := range r.Plan.Ops {
			if op.Note != "oversize-header" {
				continue
			}
			c := (&Model{r: r}).connOfOp(i)
			if c == nil {
				continue
			}
			// the header must sit at a packet boundary: every earlier hostile chunk on this connection was a
			// complete frame (otherwise the broker is rightly still reading the previous packet's body)
			aligned := true
			for j := c.ConnectOp; j < i; j++ {
				// (the CONNECT itself may be a mutated raw frame whose announced length exceeds its body)
				if oj := r.Plan.Ops[j]; ((oj.Kind == "raw" && (&Model{r: r}).connOfOp(j) == c) || (j == c.ConnectOp && oj.Raw != nil)) && oj.Raw != nil {
					if _, _, total, err := refcodec.Frame(oj.Raw); err != nil || total != len(oj.Raw) {
						aligned = false
					}
				}
			}
			if !aligned {
				continue
			}
			inv := -1
			for _, e := range r.H.Evs {
				if e.Kind == "in" && e.Op == i && e.Last {
					inv = e.Seq
				}
			}
			if inv < 0 {
				continue
			}
			q := firstQuiesceAfter(r.H, inv)
			bc := brokerCloseSeq(r.H, c.Idx)
			if q >= 0 && (bc < 0 || bc > q) && connack(c) != nil {
				out = append(out, viol("C28", "oversize-header-not-refused", fmt.Sprintf("conn %d: fixed header announcing a packet above MaximumPacketSize %d was not refused before its body (connection still open at quiescence)", c.Idx, r.Plan.Cfg.MaxPacketSize), q))
			}
		}
	}
	if prop == "C27" {
		// a mutated packet that is no longer a valid packet has no effect
		for i, op := range r.Plan.Ops {
			if op.Kind != "raw" || !strings.HasPrefix(op.Note, "mut:") {
				continue
			}
			c := (&Model{r: r}).connOfOp(i)
			if c == nil {
				continue
			}
			first, body, total, err := refcodec.Frame(op.Raw)
			valid := false
			if err == nil && total == len(op.Raw) {
				if _, derr := refcodec.Decode(first, body, c.Ver); derr == nil {
					valid = true
				}
			}
			if valid {
				continue
			}
			parts := strings.Split(op.Note, ":")
			kind, ptype := parts[1], ""
			if len(parts) > 2 {
				ptype = parts[2]
			}
			inv := -1
			for _, e := range r.H.Evs {
				if e.Kind == "in" && e.Op == i && e.Last {
					inv = e.Seq
				}
			}
			if inv < 0 {
				continue
			}
			q := firstQuiesceAfter(r.H, inv)
			if q < 0 {
				continue
			}
			// effects: a granted SUBACK, or the payload reaching the reference subscriber
			if ptype == "PUBLISH" && kind == "props-cut" && len(parts) > 3 && parts[3] != "" {
				for _, c2 := range r.Ex.Conns {
					for _, pr := range c2.Pkts {
						if pr.Seq > inv && pr.P.Type == refcodec.PUBLISH && pr.P.Payload == parts[3] {
							out = append(out, viol("C27", "malformed-packet-had-effect", fmt.Sprintf("conn %d: PUBLISH whose property block was cut inside a property (bytes % x) is not a valid packet but was forwarded to conn %d (%s)", c.Idx, op.Raw, c2.Idx, pr.P), pr.Seq, "type", ptype, "mutation", kind))
						}
					}
				}
			}
			if ptype == "SUBSCRIBE" && (kind == "truncate-body" || kind == "drop-last-byte" || kind == "length-field" || kind == "remaining-length-over" || kind == "props-cut") {
				for _, pr := range c.Pkts {
					if pr.Seq > inv && pr.Seq <= q && pr.P.Type == refcodec.SUBACK {
						for _, rc := range pr.P.ReasonCodes {
							if rc < 0x80 {
								out = append(out, viol("C27", "malformed-packet-had-effect", fmt.Sprintf("conn %d: SUBSCRIBE mutated by %s (bytes % x) is not a valid packet but was granted (%s)", c.Idx, kind, op.Raw, pr.P), pr.Seq, "type", ptype, "mutation", kind))
							}
						}
					}
				}
			}
		}
	}
	return out
}

func checkC27(r *Result) []Violation { return checkHostile(r, "C27") }
func checkC28(r *Result) []Violation { return checkHostile(r, "C28") }

func relevantHostile(r *Result) (bool, []string) {
	probes := map[string]bool{}
	n := 0
	for _, op := range r.Plan.Ops {
		if strings.HasPrefix(op.Note, "mut:") || op.Note == "oversize-header" {
			n++
			if ps := strings.Split(op.Note, ":"); len(ps) > 3 {
				probes[strings.Join(ps[:3], ":")] = true
			} else {
				probes[op.Note] = true
			}
		}
	}
	for _, c := range r.Ex.Conns {
		if c.Slot == 0 && brokerCloseSeq(r.H, c.Idx) >= 0 {
			probes["hostile-conn-closed"] = true
		}
	}
	var ps []string
	for p := range probes {
		ps = append(ps, p)
	}
	return n >= 1, ps
}

func init() {
	register(&Profile{Name: "C42", Gen: genC42, Check: checkC42, Relevant: relevantC42})
	register(&Profile{Name: "C27", Gen: genC27, Check: checkC27, Relevant: relevantHostile})
	register(&Profile{Name: "C28", Gen: genC28, Check: checkC28, Relevant: relevantHostile})
}
